//! Native counterexample search and replay: one randomized differential check per property, evaluated on the
//! REAL crate against the oracle (oracle.rs, written from the property statements).  A check draws all its
//! choices from a tape; in search mode the tape is a seeded PRNG (recorded), in replay mode the recorded bytes.
//! Recorded known findings (known_findings.json) are excluded by the same class predicates as the contracts.
use crate::oracle::*;
use libmctp::control_packet::*;
use libmctp::mctp_traits::SMBusMCTPRequestResponse;
use libmctp::smbus::MCTPSMBusContext;
use libmctp::smbus_proto::SMBusRoutingInformationUpdateEntry;
use libmctp::vendor_packets::VendorIDFormat;
use libmctp::{ControlMessageError, DecodeError, MessageType};
use std::panic::{catch_unwind, AssertUnwindSafe};

pub struct Gen {
    pub tape: Vec<u8>,
    pos: usize,
    rng: Option<u64>,
}
impl Gen {
    pub fn random(seed: u64) -> Self {
        Gen { tape: vec![], pos: 0, rng: Some(seed.wrapping_mul(0x9E3779B97F4A7C15) | 1) }
    }
    pub fn replay(tape: Vec<u8>) -> Self {
        Gen { tape, pos: 0, rng: None }
    }
    pub fn u8(&mut self) -> u8 {
        match self.rng.as_mut() {
            Some(s) => {
                *s ^= *s << 13;
                *s ^= *s >> 7;
                *s ^= *s << 17;
                let b = (*s >> 32) as u8;
                self.tape.push(b);
                b
            }
            None => {
                let b = self.tape.get(self.pos).copied().unwrap_or(0);
                self.pos += 1;
                b
            }
        }
    }
    pub fn below(&mut self, n: usize) -> usize {
        if n <= 1 {
            return 0;
        }
        let v = ((self.u8() as usize) << 8) | self.u8() as usize;
        v % n
    }
    pub fn bool(&mut self) -> bool {
        self.u8() & 1 == 1
    }
    pub fn bytes(&mut self, n: usize) -> Vec<u8> {
        (0..n).map(|_| self.u8()).collect()
    }
    pub fn pick(&mut self, xs: &[u8]) -> u8 {
        xs[self.below(xs.len())]
    }
}

fn quiet<F: FnOnce() -> R, R>(f: F) -> Result<R, String> {
    catch_unwind(AssertUnwindSafe(f)).map_err(|e| {
        if let Some(s) = e.downcast_ref::<&str>() { s.to_string() } else if let Some(s) = e.downcast_ref::<String>() { s.clone() } else { "panic".into() }
    })
}
fn hex(b: &[u8]) -> String {
    b.iter().map(|x| format!("{:02x}", x)).collect::<Vec<_>>().join("")
}

fn cc_of(n: u8) -> CompletionCode {
    match n % 6 { 0 => CompletionCode::Success, 1 => CompletionCode::Error, 2 => CompletionCode::ErrorInvalidData, 3 => CompletionCode::ErrorInvalidLength, 4 => CompletionCode::ErrorNotReady, _ => CompletionCode::ErrorUnsupportedCmd }
}

/// a byte string that is "interesting" for the decoder: a well-formed packet of a random kind, often mutated
fn gen_packet(g: &mut Gen) -> Vec<u8> {
    let mt = match g.below(8) { 0 => 0x05, 1 => 0x06, 2 => 0x7E, 3 => 0x7F, 4 => g.u8(), _ => 0x00 };
    let dst = g.u8();
    let src = g.u8();
    let mut body: Vec<u8>;
    if mt == 0 {
        let rq = g.bool();
        let cmd = if g.below(4) == 0 { g.u8() } else { g.below(0x16) as u8 };
        let iid = g.u8() & 0x1f;
        let h0 = (if rq { 0x80 } else { 0 }) | (if g.below(8) == 0 { 0x40 } else { 0 }) | (if g.below(8) == 0 { 0x20 } else { 0 }) | iid;
        body = vec![h0, cmd];
        let fixed = if rq { req_len(cmd) } else { resp_len_lib(cmd) };
        if !rq {
            body.push(if g.below(3) == 0 { g.u8() % 8 } else { 0 });
        }
        let n = match g.below(8) { 0 | 1 => g.below(20), 2 | 3 => fixed + 1, 4 => fixed.saturating_sub(1), 5 if fixed == 0 => 236 + g.below(40), _ => fixed };
        body.extend(g.bytes(n));
    } else {
        let n = if g.below(8) == 0 { 236 + g.below(40) } else { g.below(24) };   // sometimes around / beyond the 259-byte SMBus maximum
        body = g.bytes(n);
    }
    let mut p = packet_bytes(dst, src, mt, &body);
    if g.below(6) == 0 { p[4] = g.u8(); }
    if g.below(10) == 0 { p[8] |= 0x80; }
    match g.below(8) {
        0 => { let i = g.below(p.len()); p[i] ^= 1 << g.below(8); }       // bit flip
        1 => { let n = g.below(p.len() + 1); p.truncate(n); }              // truncation
        2 => { p.push(0); }                                                // trailing zero byte
        3 => { let l = p.len(); p[l - 1] = p[l - 1].wrapping_add(1 + g.u8() % 255); } // wrong PEC
        _ => {}
    }
    p
}

fn ctx_cfg(g: &mut Gen) -> (u8, Vec<u8>, Vec<VendorIDFormat>) {
    let addr = g.u8();
    let nt = g.below(31);
    let types = g.bytes(nt);
    let nv = 1 + g.below(16);
    let mut vids: Vec<VendorIDFormat> = vec![];
    let dup = g.below(3) == 0; // configurations with repeated (field-for-field identical) sets are valid too
    for k in 0..nv {
        if dup && k > 0 && g.bool() {
            let j = g.below(k);
            let v = VendorIDFormat { format: vids[j].format, data: vids[j].data, numeric_value: vids[j].numeric_value };
            vids.push(v);
        } else {
            let small = g.below(4) == 0; // small identifiers / zero numeric values are interesting boundary values
            let data = if small { g.u8() as u32 } else { u32::from_be_bytes([g.u8(), g.u8(), g.u8(), g.u8()]) };
            let nv16 = if small { 0 } else { u16::from_be_bytes([g.u8(), g.u8()]) };
            vids.push(VendorIDFormat { format: g.u8() & 1, data, numeric_value: nv16 });
        }
    }
    (addr, types, vids)
}

fn err_class(e: &(MessageType, DecodeError)) -> String {
    format!("{:?}", e)
}

// ---------------------------------------------------------------------------------------------- per-property checks
type Chk = fn(&mut Gen) -> Result<(), String>;

fn fit(buf: &mut Vec<u8>, expect: &Option<(u8, Vec<u8>)>, exact: bool) {
    if exact {
        if let Some((_, b)) = expect {
            if b.len() <= 249 { buf.truncate(10 + b.len()); }
        }
    }
}

/// every encoder with random arguments: exact bytes (C03-C08), length, frame (C16), round trip (C01), probe (C04)
fn chk_encoders(g: &mut Gen) -> Result<(), String> {
    let (addr, types, vids) = ctx_cfg(g);
    let c = MCTPSMBusContext::new(addr, &types, &vids);
    let rx = MCTPSMBusContext::new(g.u8(), &[], &[]);
    // one to three encoder calls on the same pair of contexts; later calls sometimes reuse an earlier vendor identifier
    let calls = if g.below(3) == 0 { 2 + g.below(2) } else { 1 };
    let mut last_data: Option<u32> = None;
    for _ in 0..calls {
        enc_once(&c, &rx, addr, g, &mut last_data)?;
    }
    Ok(())
}

fn enc_once(c: &MCTPSMBusContext, rx: &MCTPSMBusContext, addr: u8, g: &mut Gen, last_data: &mut Option<u32>) -> Result<(), String> {
    let dst = g.u8();
    let poison = g.u8();
    let extra = g.below(8);
    let which = g.below(27);
    let mut buf = vec![poison; 1100 + extra];
    let exact = g.below(3) == 0; // C16: a buffer of exactly the packet length must work like a larger one
    let eid_cell = g.u8();
    c.get_response().set_eid(eid_cell);
    // expected: (message type byte, body after the type byte) or None = must be refused with the buffer untouched
    let mut expect: Option<(u8, Vec<u8>)>;
    let rq = c.get_request();
    let rs = c.get_response();
    let r: Result<Result<usize, ()>, String> = match which {
        0 => { let op = g.below(4) as u8; let eid = if g.below(4) == 0 { g.pick(&[0x00, 0xFF]) } else { g.u8() };
               expect = if eid == 0 || eid == 0xFF { None } else { Some((0, vec![0x80, 0x01, op, eid])) };
               let o = match op { 0 => MCTPSetEndpointIDOperations::SetEID, 1 => MCTPSetEndpointIDOperations::ForceEID, 2 => MCTPSetEndpointIDOperations::ResetEID, _ => MCTPSetEndpointIDOperations::SetDiscoveredFlag };
               { fit(&mut buf, &expect, exact); quiet(|| rq.set_endpoint_id(dst, o, eid, &mut buf)) } }
        1 => { expect = Some((0, vec![0x80, 0x02])); { fit(&mut buf, &expect, exact); quiet(|| rq.get_endpoint_id(dst, &mut buf)) } }
        2 => { expect = Some((0, vec![0x80, 0x03])); { fit(&mut buf, &expect, exact); quiet(|| rq.get_endpoint_uuid(dst, &mut buf)) } }
        3 => { let q = g.below(5); let (qe, qb) = match q { 0 => (MCTPVersionQuery::MCTPBaseSpec, 0xFF), 1 => (MCTPVersionQuery::MCTPControlProcMessage, 0), 2 => (MCTPVersionQuery::DSP0241, 1), 3 => (MCTPVersionQuery::DSP0261, 2), _ => (MCTPVersionQuery::DSP0261_2, 3) };
               expect = Some((0, vec![0x80, 0x04, qb])); { fit(&mut buf, &expect, exact); quiet(|| rq.get_mctp_version_support(dst, qe, &mut buf)) } }
        4 => { expect = Some((0, vec![0x80, 0x05])); { fit(&mut buf, &expect, exact); quiet(|| rq.get_message_type_suport(dst, &mut buf)) } }
        5 => { let v = g.u8(); expect = Some((0, vec![0x80, 0x06, v])); { fit(&mut buf, &expect, exact); quiet(|| rq.get_vendor_defined_message_support(dst, v, &mut buf)) } }
        6 => { let v = g.u8(); expect = Some((0, vec![0x80, 0x07, v])); { fit(&mut buf, &expect, exact); quiet(|| rq.resolve_endpoint_id(dst, v, &mut buf)) } }
        7 => { let o = g.below(3); let (oe, ob) = match o { 0 => (AllocateEndpointIDOperation::AllocateEIDs, 0), 1 => (AllocateEndpointIDOperation::ForceAllocation, 1), _ => (AllocateEndpointIDOperation::GetAllocationInformation, 2) };
               let (a, b) = (g.u8(), g.u8()); expect = Some((0, vec![0x80, 0x08, ob, a, b])); { fit(&mut buf, &expect, exact); quiet(|| rq.allocate_endpoint_ids(dst, oe, a, b, &mut buf)) } }
        8 => { let n = if g.below(6) == 0 { 8 + g.below(130) } else { g.below(10) }; let raws: Vec<[u8; 4]> = (0..n).map(|_| [g.u8(), g.u8(), g.u8(), g.u8()]).collect();
               let ents: Vec<_> = raws.iter().map(|r| SMBusRoutingInformationUpdateEntry::new_from_buf(*r)).collect();
               let mut b = vec![0x80, 0x09, n as u8]; for r in &raws { b.extend_from_slice(r); }
               expect = if n >= 8 { None } else { Some((0, b)) };
               { fit(&mut buf, &expect, exact); quiet(|| rq.routing_information_update(dst, &ents, &mut buf)) } }
        9 => { let v = g.u8(); expect = Some((0, vec![0x80, 0x0A, v])); { fit(&mut buf, &expect, exact); quiet(|| rq.get_routing_table_entries(dst, v, &mut buf)) } }
        10 => { expect = Some((0, vec![0x80, 0x0B])); { fit(&mut buf, &expect, exact); quiet(|| rq.prepare_for_endpoint_discovery(dst, &mut buf)) } }
        11 => { expect = Some((0, vec![0x80, 0x0C])); { fit(&mut buf, &expect, exact); quiet(|| rq.endpoint_discovery(dst, &mut buf)) } }
        12 => { expect = Some((0, vec![0x80, 0x0D])); { fit(&mut buf, &expect, exact); quiet(|| rq.discovery_notify(dst, &mut buf)) } }
        13 => { expect = Some((0, vec![0x80, 0x0E])); { fit(&mut buf, &expect, exact); quiet(|| rq.get_network_id(dst, &mut buf)) } }
        14 => { let t = g.u8(); let mtb = g.pick(&[0x00, 0x05, 0x06, 0x7E, 0x7F, 0xFF]);
                // KF.D7 (recorded): the library sends 0x0E; the DSP0236 code 0x0F is what a repaired tree sends
                expect = Some((0, vec![0x80, 0x0F, t, mtb]));
                { fit(&mut buf, &expect, exact); quiet(|| rq.query_hop(dst, t, MessageType::from(mtb), &mut buf)) } }
        15 => { let u = g.bytes(16); let h = g.u8(); let mut b = vec![0x80, 0x10]; b.extend_from_slice(&u); b.push(h);
                expect = Some((0, b)); let ua: [u8; 16] = u.clone().try_into().unwrap(); { fit(&mut buf, &expect, exact); quiet(|| rq.resolve_uuid(dst, &ua, h, &mut buf)) } }
        16 => { expect = Some((0, vec![0x80, 0x11])); { fit(&mut buf, &expect, exact); quiet(|| rq.query_rate_limit(dst, &mut buf)) } }
        17 | 18 => { let fmt = if g.below(5) == 0 { g.u8() } else { g.u8() & 1 };
                let fresh = match g.below(8) { 0 => 0xFFFF, 1 => 0xFFFF_FFFF, 2 => 0x0001_0000 | g.u8() as u32, 3 => 0, 4 => 0x0000_FF00 | g.u8() as u32, _ => u32::from_be_bytes([g.u8(), g.u8(), g.u8(), g.u8()]) };
                let data = match *last_data { Some(d) if g.bool() => d, _ => fresh };
                *last_data = Some(data);
                let n = match g.below(8) { 0 | 1 => 240 + g.below(30), 2 => 250 + g.below(600), _ => g.below(40) }; let msg = g.bytes(n);
                let f = VendorIDFormat { format: fmt, data, numeric_value: g.u8() as u16 };
                expect = match fmt { 0 => { let mut b = vec![(data >> 8) as u8, data as u8]; b.extend_from_slice(&msg); Some((0x7E, b)) }
                                     1 => { let mut b = data.to_be_bytes().to_vec(); b.extend_from_slice(&msg); Some((0x7F, b)) }
                                     _ => None };
                if let Some((_, b)) = &expect { if b.len() > 249 { expect = None; } }
                { fit(&mut buf, &expect, exact); quiet(|| rq.vendor_defined(dst, &f, &msg, &mut buf)) } }
        19 => { let sec = g.bool(); let hn = g.below(5); let hdr = g.bytes(hn); let n = if g.below(4) == 0 { 240 + g.below(30) } else { g.below(40) }; let data = g.bytes(n);
                let mut b = hdr.clone(); b.extend_from_slice(&data);
                expect = if b.len() > 249 { None } else { Some((if sec { 0x06 } else { 0x05 }, b)) };
                let h: Option<&[u8]> = if hn == 0 && g.bool() { None } else { Some(&hdr) };
                let mt = if sec { MessageType::SecuredMessages } else { MessageType::SpdmOverMctp };
                { fit(&mut buf, &expect, exact); quiet(|| rq.generate_spdm_msg_packet_bytes(dst, mt, &h, &data, &mut buf)) } }
        20 => { let cc = g.u8() % 6; let rej = g.bool(); let al = g.below(3) as u8;
                expect = Some((0, vec![0x00, 0x01, cc, (if rej { 0x10 } else { 0 }) | al, eid_cell, 0]));
                let st = if rej { MCTPSetEndpointIDAssignmentStatus::Rejected } else { MCTPSetEndpointIDAssignmentStatus::Accpeted };
                let a = match al { 0 => MCTPSetEndpointIDAllocationStatus::NoIDPool, 1 => MCTPSetEndpointIDAllocationStatus::RequiresAllocation, _ => MCTPSetEndpointIDAllocationStatus::AlreadyAllocated };
                { fit(&mut buf, &expect, exact); quiet(|| rs.set_endpoint_id(cc_of(cc), dst, st, a, &mut buf)) } }
        21 => { let cc = g.u8() % 6; let et = g.below(2) as u8; let it = g.below(4) as u8; let f = g.bool();
                expect = Some((0, vec![0x00, 0x02, cc, eid_cell, (et << 4) | it, f as u8]));
                let e = if et == 0 { MCTPGetEndpointIDEndpointType::Simple } else { MCTPGetEndpointIDEndpointType::Bus };
                let i = match it { 0 => MCTPGetEndpointIDEndpointIDType::DynamicEID, 1 => MCTPGetEndpointIDEndpointIDType::StaticEID, 2 => MCTPGetEndpointIDEndpointIDType::StaticPresentMatchEID, _ => MCTPGetEndpointIDEndpointIDType::StaticPresentNoMatchEID };
                { fit(&mut buf, &expect, exact); quiet(|| rs.get_endpoint_id(cc_of(cc), dst, e, i, f, &mut buf)) } }
        22 => { let cc = g.u8() % 6; let u = g.bytes(16); let mut b = vec![0x00, 0x03, cc]; b.extend_from_slice(&u); expect = Some((0, b));
                let ua: [u8; 16] = u.try_into().unwrap(); { fit(&mut buf, &expect, exact); quiet(|| rs.get_endpoint_uuid(cc_of(cc), dst, &ua, &mut buf)) } }
        23 => { let cc = g.u8() % 6; expect = Some((0, vec![0x00, 0x04, cc, 1, 0xF1, 0xF3, 0xF1, 0x00])); { fit(&mut buf, &expect, exact); quiet(|| rs.get_mctp_version_support(cc_of(cc), dst, &mut buf)) } }
        24 => { let cc = g.u8() % 6; let n = if g.below(5) == 0 { 31 + g.below(700) } else { g.below(34) }; let t = g.bytes(n); let mut b = vec![0x00, 0x05, cc, n as u8]; b.extend_from_slice(&t);
                expect = if n > 30 { None } else { Some((0, b)) }; { fit(&mut buf, &expect, exact); quiet(|| rs.get_message_type_suport(cc_of(cc), dst, &t, &mut buf)) } }
        _ => { let cc = g.u8() % 6; let sel = g.u8(); let n = g.below(8); let v = g.bytes(n); let mut b = vec![0x00, 0x06, cc, sel]; b.extend_from_slice(&v);
                expect = Some((0, b)); { fit(&mut buf, &expect, exact); quiet(|| rs.get_vendor_defined_message_support(cc_of(cc), dst, sel, &v, &mut buf)) } }
    };
    let r = r.map_err(|m| format!("encoder #{} panicked: {}", which, m))?;
    match (&expect, r) {
        (None, Err(())) => {
            if buf.iter().any(|b| *b != poison) { return Err(format!("encoder #{} refused but modified the buffer", which)); }
            Ok(())
        }
        (None, Ok(n)) => Err(format!("encoder #{} accepted a documented-invalid / oversize argument (len {})", which, n)),
        (Some(_), Err(())) => Err(format!("encoder #{} refused a valid argument", which)),
        (Some((mt, body)), Ok(n)) => {
            let mut exp = packet_bytes(dst, addr, *mt, body);
            if which == 14 && buf[10] == 0x0E {
                // KF.D7 recorded finding: tolerate exactly the recorded wrong code
                let mut b2 = body.clone(); b2[1] = 0x0E; exp = packet_bytes(dst, addr, *mt, &b2);
            }
            if n != exp.len() { return Err(format!("encoder #{} reports length {} expected {}", which, n, exp.len())); }
            if buf[..n] != exp[..] { return Err(format!("encoder #{} wrote {} expected {}", which, hex(&buf[..n]), hex(&exp))); }
            if buf[n..].iter().any(|b| *b != poison) { return Err(format!("encoder #{} wrote beyond the reported length", which)); }
            // C04: probe on every prefix of at least three bytes
            for k in [3usize, 4, n / 2 + 3, n] {
                let k = k.min(n);
                match quiet(|| rx.get_length(&buf[..k])) {
                    Ok(Ok(l)) if l == n => {}
                    o => return Err(format!("get_length on a {}-byte prefix of an encoded {}-byte packet: {:?}", k, n, o.map(|x| x.map_err(|e| err_class(&e))))),
                }
            }
            // C01: round trip through the real decoder (recorded findings excluded: D6 own Get Endpoint ID response, D9a commands above 8)
            let pkt = &buf[..n];
            if decode_known_panic(pkt) { return Ok(()); }
            if *mt == 0 && body[0] & 0x80 == 0 && body[1] == 0x02 && body[2] == 0 { return Ok(()); }
            let d = quiet(|| rx.decode_packet(pkt).map(|(t, p)| (t as u8, p.to_vec()))).map_err(|m| format!("decoder panicked on the library's own packet {}: {}", hex(pkt), m))?;
            let want_payload: Vec<u8> = if *mt != 0 { body.clone() } else if body[0] & 0x80 != 0 { body[2..].to_vec() } else { body[3..].to_vec() };
            if *mt == 0 && body[0] & 0x80 == 0 && body[2] != 0 {
                match rx.decode_packet(pkt) {
                    Err((MessageType::MCtpControl, DecodeError::ControlMessage(ControlMessageError::UnsuccessfulCompletionCode(c)))) => {
                        if c as u8 == body[2] { Ok(()) } else { Err(format!("own non-Success response {} (code {}) decoded to a different completion code", hex(pkt), body[2])) }
                    }
                    o => Err(format!("own non-Success response {} decoded to {:?}", hex(pkt), o.map(|x| x.1.to_vec()))),
                }
            } else {
                match d {
                    Ok((t, p)) if t == *mt && p == want_payload => Ok(()),
                    o => Err(format!("round trip of {}: got {:?} expected type {:#x} payload {}", hex(pkt), o.map_err(|e| err_class(&e)), mt, hex(&want_payload))),
                }
            }
        }
    }
}

/// decoder vs reference decoder on arbitrary byte strings (C09, C10, C02) + process_packet agreement and frame (C11) + get_length (C17)
fn chk_receive(g: &mut Gen) -> Result<(), String> {
    let (addr, types, vids) = ctx_cfg(g);
    let c = MCTPSMBusContext::new(addr, &types, &vids);
    let e0 = g.u8();
    c.get_request().set_eid(e0);
    c.get_response().set_eid(e0);
    // C17: the probe on short prefixes over a small alphabet, first on the fresh context
    for _ in 0..2 {
        let qn = g.below(6);
        let q: Vec<u8> = (0..qn).map(|_| match g.below(5) { 0 => 0x00, 1 => 0x0F, 2 => 0xFF, 3 => 0x04, _ => g.u8() }).collect();
        match quiet(|| c.get_length(&q)) {
            Err(m) => return Err(format!("get_length({}) panicked: {}", hex(&q), m)),
            Ok(r) => {
                let want = if q.len() >= 3 && q[1] == 0x0F { Some(q[2] as usize + 4) } else { None };
                match (r, want) {
                    (Ok(l), Some(w)) if l == w => {}
                    (Err((MessageType::Invalid, _)), None) => {}
                    (r, w) => return Err(format!("get_length({}) = {:?}, expected {:?}", hex(&q), r.map_err(|e| err_class(&e)), w)),
                }
            }
        }
    }
    let p = gen_packet(g);
    // C17 / C10: the probe
    match quiet(|| c.get_length(&p)) {
        Err(m) => return Err(format!("get_length({}) panicked: {}", hex(&p), m)),
        Ok(r) => {
            let want = if p.len() >= 3 && p[1] == 0x0F { Some(p[2] as usize + 4) } else { None };
            match (r, want) {
                (Ok(l), Some(w)) if l == w => {}
                (Err((MessageType::Invalid, _)), None) => {}
                (r, w) => return Err(format!("get_length({}) = {:?}, expected {:?}", hex(&p), r.map_err(|e| err_class(&e)), w)),
            }
        }
    }
    if decode_known_panic(&p) { return Ok(()); }
    let d = quiet(|| c.decode_packet(&p).map(|(t, pl)| (t as u8, pl.to_vec()))).map_err(|m| format!("decode_packet({}) panicked: {}", hex(&p), m))?;
    let claimed = c09_claimed(&p);
    let acc = decode_accepts(&p);
    match &d {
        Ok((t, pl)) => {
            if claimed && !acc { return Err(format!("decode_packet accepted {} which the reference decoder rejects", hex(&p))); }
            if !pec_ok(&p) { return Err(format!("decode_packet accepted {} whose PEC is wrong", hex(&p))); }
            let s = payload_start(&p);
            if *t != mt_of(p[8] & 0x7f) || pl[..] != p[s..p.len() - 1] { return Err(format!("decode_packet({}) type/payload wrong: {:#x} {}", hex(&p), t, hex(pl))); }
        }
        Err(e) => {
            if claimed && acc { return Err(format!("decode_packet rejected {} ({}) which the reference decoder accepts", hex(&p), err_class(e))); }
            if p.len() >= 10 {
                // truthfulness
                match e {
                    (MessageType::Invalid, _) if hdr_ok(&p) => return Err(format!("decode_packet({}) says Invalid but the headers are fine", hex(&p))),
                    (_, DecodeError::ControlMessage(ControlMessageError::InvalidPEC)) if pec_ok(&p) => return Err(format!("decode_packet({}) says InvalidPEC but the PEC is right", hex(&p))),
                    (_, DecodeError::ControlMessage(ControlMessageError::InvalidRequestDataLength)) if !(hdr_ok(&p) && p[8] & 0x7f == 0 && p.len() >= 12 && ctrl_fixed_len(&p) > 0 && ctrl_data_len(&p) != ctrl_fixed_len(&p) as isize) =>
                        return Err(format!("decode_packet({}) says InvalidRequestDataLength but the length is right", hex(&p))),
                    (_, DecodeError::ControlMessage(ControlMessageError::Unknown)) if !(hdr_ok(&p) && p[8] & 0x7f == 0 && p.len() >= 13 && p[9] & 0x80 == 0 && p[11] > 5) =>
                        return Err(format!("decode_packet({}) says Unknown control error but the packet is not a response with an unknown completion code", hex(&p))),
                    (_, DecodeError::ControlMessage(ControlMessageError::UnsuccessfulCompletionCode(cc))) if !(hdr_ok(&p) && p[8] & 0x7f == 0 && p.len() >= 13 && p[9] & 0x80 == 0 && p[11] != 0 && p[11] == (match cc { CompletionCode::Success => 0, CompletionCode::Error => 1, CompletionCode::ErrorInvalidData => 2, CompletionCode::ErrorInvalidLength => 3, CompletionCode::ErrorNotReady => 4, CompletionCode::ErrorUnsupportedCmd => 5 })) =>
                        return Err(format!("decode_packet({}) reports a completion code the packet does not carry", hex(&p))),
                    _ => {}
                }
            }
        }
    }
    // context independence
    let c2 = MCTPSMBusContext::new(addr.wrapping_add(1), &[], &[]);
    let d2 = quiet(|| c2.decode_packet(&p).map(|(t, pl)| (t as u8, pl.to_vec()))).map_err(|m| format!("decode_packet panicked on a second context: {}", m))?;
    if format!("{:?}", d) != format!("{:?}", d2) { return Err(format!("decode_packet({}) depends on the context", hex(&p))); }
    // C11: process agrees with decode, responds only to requests, frame
    if process_known_panic(&p, vids.len()) { return Ok(()); }
    let poison = g.u8();
    let mut rb = vec![poison; 64 + g.below(8)];
    let pr = quiet(|| c.process_packet(&p, &mut rb).map(|((t, pl), n)| (t as u8, pl.to_vec(), n))).map_err(|m| format!("process_packet({}) panicked: {}", hex(&p), m))?;
    match (&d, &pr) {
        (Ok((t, pl)), Ok((t2, pl2, on))) => {
            if t != t2 || pl != pl2 { return Err(format!("process_packet({}) reports a different type/payload than decode_packet", hex(&p))); }
            let answerable = *t == 0 && p[9] & 0x80 != 0 && cmd_answered(p[10]);
            if on.is_some() != answerable { return Err(format!("process_packet({}) response={:?} but answerable request={}", hex(&p), on, answerable)); }
            match on {
                None => if rb.iter().any(|b| *b != poison) { return Err(format!("process_packet({}) reported no response but wrote to the response buffer", hex(&p))); },
                Some(n) => {
                    if rb[*n..].iter().any(|b| *b != poison) { return Err(format!("process_packet({}) wrote beyond the reported response length", hex(&p))); }
                    // C12: well-formed, travels back, correlates
                    let r = &rb[..*n];
                    let exp = packet_bytes(p[6], addr, 0, &r[9..n - 1]);
                    if r != &exp[..] { return Err(format!("response {} to {} is not a well-formed packet back to the requester (expected {})", hex(r), hex(&p), hex(&exp))); }
                    if r[9] & 0xE0 != 0 || r[10] != p[10] || *n < 13 { return Err(format!("response {} does not correlate with request {}", hex(r), hex(&p))); }
                    if r[11] != answer_completion(&p, vids.len()) { return Err(format!("response {} to {} carries completion code {} expected {}", hex(r), hex(&p), r[11], answer_completion(&p, vids.len()))); }
                    if r[9] & 0x1f != p[9] & 0x1f && r[9] & 0x1f != 0 { return Err(format!("response {} carries a foreign instance ID (request {})", hex(r), hex(&p))); }
                    // C13: EID
                    let assign = p[10] == 1 && (p[11] == 0 || p[11] == 1);
                    let want_eid = if assign { p[12] } else { e0 };
                    if c.get_request().get_eid() != want_eid || c.get_response().get_eid() != want_eid { return Err(format!("after {} the EID is {}/{} expected {}", hex(&p), c.get_request().get_eid(), c.get_response().get_eid(), want_eid)); }
                    match p[10] {
                        1 if assign => if r[11..15] != [0, 0, p[12], 0] { return Err(format!("Set Endpoint ID answered with {}", hex(r))); },
                        1 => if r[11] != 2 || r[13] != e0 || *n != 16 { return Err(format!("Set Endpoint ID with a non-assigning operation answered with {}", hex(r))); },
                        2 => if r[11] != 0 || r[12] != e0 { return Err(format!("Get Endpoint ID answered with {} (EID {})", hex(r), e0)); },
                        3 => if r[11] != 0 || r[12..28] != [0u8; 16] { return Err(format!("Get Endpoint UUID answered with {}", hex(r))); },
                        4 => if r[11..17] != [0, 1, 0xF1, 0xF3, 0xF1, 0x00] { return Err(format!("Get MCTP Version Support answered with {}", hex(r))); },
                        5 => if r[11] != 0 || r[12] as usize != types.len() || r[13..n - 1] != types[..] { return Err(format!("Get Message Type Support answered with {}", hex(r))); },
                        6 if p[11] as usize >= vids.len() => if r[11..n - 1] != [2u8, 0xFF] { return Err(format!("Get Vendor Defined Message Support with out-of-range selector {} answered with {}", p[11], hex(r))); },
                        6 => {
                            let i = p[11] as usize; let v = &vids[i];
                            let mut f = vec![0u8, if i + 1 == vids.len() { 0xFF } else { (i + 1) as u8 }, v.format];
                            if v.format == 0 { f.extend_from_slice(&[(v.data >> 8) as u8, v.data as u8]); } else { f.extend_from_slice(&v.data.to_be_bytes()); }
                            f.extend_from_slice(&v.numeric_value.to_be_bytes());
                            if r[11..n - 1] != f[..] { return Err(format!("Get Vendor Defined Message Support (selector {}) answered with {} expected fields {}", i, hex(r), hex(&f))); }
                        }
                        _ => {}
                    }
                    return Ok(());
                }
            }
        }
        (Err(e), Err(e2)) => {
            if err_class(e) != err_class(e2) { return Err(format!("process_packet({}) error {} differs from decode_packet's {}", hex(&p), err_class(e2), err_class(e))); }
            if rb.iter().any(|b| *b != poison) { return Err(format!("process_packet({}) failed but wrote to the response buffer", hex(&p))); }
        }
        _ => return Err(format!("process_packet({}) and decode_packet disagree: {:?} vs {:?}", hex(&p), pr.as_ref().map(|x| x.2).map_err(err_class), d.as_ref().map(|_| ()).map_err(err_class))),
    }
    if c.get_request().get_eid() != e0 || c.get_response().get_eid() != e0 { return Err(format!("EID changed by {}", hex(&p))); }
    Ok(())
}

/// C02: a corruption of a valid packet confined to eight consecutive bits is never accepted, changes no state, writes nothing
fn chk_burst(g: &mut Gen) -> Result<(), String> {
    let (addr, types, vids) = ctx_cfg(g);
    let c = MCTPSMBusContext::new(addr, &types, &vids);
    let e0 = g.u8();
    c.get_request().set_eid(e0);
    c.get_response().set_eid(e0);
    // a valid packet: Set Endpoint ID request most of the time (the one that would change state)
    let p0 = if g.below(3) > 0 { packet_bytes(g.u8(), g.u8(), 0, &[0x80 | (g.u8() & 0x1f), 0x01, g.below(2) as u8, g.u8()]) }
             else { let mt = g.pick(&[0x05, 0x06, 0x7E, 0x7F]); let n = g.below(20); let b = g.bytes(n); packet_bytes(g.u8(), g.u8(), mt, &b) };
    let nbits = p0.len() * 8;
    let start = g.below(nbits);
    let mut pat = g.u8();
    if pat == 0 { pat = 1; }
    let mut p = p0.clone();
    for k in 0..8 {
        let bit = start + k;
        if bit < nbits && pat & (0x80 >> k) != 0 { p[bit / 8] ^= 0x80 >> (bit % 8); }
    }
    if p == p0 { return Ok(()); }
    if decode_known_panic(&p) || process_known_panic(&p, vids.len()) { return Ok(()); }
    // the corrupted bytes arrive in the same receive buffer in which the valid packet was processed before
    // ("every context state": a receiver reuses its buffer), half of the time
    let reuse = g.bool();
    let mut rxbuf = p0.clone();
    if reuse && !decode_known_panic(&p0) && !process_known_panic(&p0, vids.len()) {
        let mut rb0 = vec![0u8; 64];
        let _ = quiet(|| c.process_packet(&rxbuf, &mut rb0).map(|x| x.1));
        let _ = quiet(|| c.decode_packet(&rxbuf).map(|x| x.0 as u8));
        c.get_request().set_eid(e0);
        c.get_response().set_eid(e0);
    }
    rxbuf.copy_from_slice(&p);
    let p = &rxbuf[..];
    let d = quiet(|| c.decode_packet(&p).map(|(t, pl)| (t as u8, pl.to_vec()))).map_err(|m| format!("decode_packet({}) panicked: {}", hex(&p), m))?;
    if d.is_ok() { return Err(format!("corrupted packet {} (from {}) was accepted by decode_packet", hex(&p), hex(&p0))); }
    let poison = g.u8();
    let mut rb = vec![poison; 64];
    let pr = quiet(|| c.process_packet(&p, &mut rb).map(|((t, pl), n)| (t as u8, pl.to_vec(), n))).map_err(|m| format!("process_packet({}) panicked: {}", hex(&p), m))?;
    if pr.is_ok() { return Err(format!("corrupted packet {} was accepted by process_packet", hex(&p))); }
    if rb.iter().any(|b| *b != poison) { return Err(format!("corrupted packet {} produced response bytes", hex(&p))); }
    if c.get_request().get_eid() != e0 || c.get_response().get_eid() != e0 { return Err(format!("corrupted packet {} changed the EID", hex(&p))); }
    Ok(())
}

/// C13/C15: histories of processed packets, decode-only calls, accessor calls and UUID updates against the abstract model
fn chk_history(g: &mut Gen) -> Result<(), String> {
    let (addr, types, vids) = ctx_cfg(g);
    let mut c = MCTPSMBusContext::new(addr, &types, &vids);
    let mut model_eid = 0u8;      // request half
    let mut model_eid_s = 0u8;    // response half
    let mut model_uuid = [0u8; 16];
    let steps = 1 + g.below(12);
    let mut trace = vec![];
    let mut last_sel = 0u8;       // the selector most recently handed out by this context (C14 walk / C10)
    for _ in 0..steps {
        match g.below(8) {
            0 => { let v = g.u8();
                   match g.below(3) { 0 => { c.get_request().set_eid(v); model_eid = v; trace.push(format!("req.set_eid({})", v)); }
                                      1 => { c.get_response().set_eid(v); model_eid_s = v; trace.push(format!("resp.set_eid({})", v)); }
                                      _ => { c.get_request().set_eid(v); c.get_response().set_eid(v); model_eid = v; model_eid_s = v; trace.push(format!("set_eid({})", v)); } } }
            1 => { let u = if g.below(4) == 0 { vec![0u8; 16] } else { g.bytes(16) }; c.set_uuid(&u); model_uuid.copy_from_slice(&u); trace.push(format!("set_uuid({})", hex(&u))); }
            2 => { let p = gen_packet(g); if !decode_known_panic(&p) { let _ = quiet(|| c.decode_packet(&p).map(|x| x.0 as u8)); } trace.push(format!("decode({})", hex(&p))); }
            5 => {
                // Get Vendor Defined Message Support: follow the walk, ask for the end selector, or any selector (in range or not)
                let sel = match g.below(4) { 0 => last_sel, 1 => 0xFF, 2 => g.below(vids.len() + 1) as u8, _ => g.u8() };
                let src = g.u8();
                let p = packet_bytes(addr, src, 0, &[0x80 | (g.u8() & 0x1f), 0x06, sel]);
                let fill = if g.below(3) == 0 { 0u8 } else { g.u8() };   // C11: the bytes beyond the reported length stay as they were
                let mut rb = [fill; 64];
                let r = quiet(|| c.process_packet(&p, &mut rb).map(|x| x.1)).map_err(|m| format!("history {:?}: process_packet({}) panicked: {}", trace, hex(&p), m))?;
                trace.push(format!("process({})", hex(&p)));
                let n = match r { Ok(Some(n)) => n, o => return Err(format!("history {:?}: Get Vendor Defined Message Support not answered: {:?}", trace, o.map_err(|e| err_class(&e)))) };
                if (sel as usize) < vids.len() {
                    let v = &vids[sel as usize];
                    let mut f = vec![0u8, if sel as usize + 1 == vids.len() { 0xFF } else { sel + 1 }, v.format];
                    if v.format == 0 { f.extend_from_slice(&[(v.data >> 8) as u8, v.data as u8]); } else { f.extend_from_slice(&v.data.to_be_bytes()); }
                    f.extend_from_slice(&v.numeric_value.to_be_bytes());
                    if rb[11..n - 1] != f[..] { return Err(format!("history {:?}: selector {} answered with {} expected fields {}", trace, sel, hex(&rb[..n]), hex(&f))); }
                    last_sel = rb[12];
                } else if rb[11..n - 1] != [2u8, 0xFF] {
                    return Err(format!("history {:?}: out-of-range selector {} answered with {}", trace, sel, hex(&rb[..n])));
                }
                if rb[..n] != packet_bytes(src, addr, 0, &rb[9..n - 1])[..] { return Err(format!("history {:?}: vendor support answer {} is not a well-formed response back to {:#x}", trace, hex(&rb[..n]), src)); }
                if rb[n..].iter().any(|b| *b != fill) { return Err(format!("history {:?}: vendor support answer of {} bytes, but bytes beyond the reported length were written: {}", trace, n, hex(&rb[n..]))); }
            }
            3 | 4 => {
                let op = if g.below(6) == 0 { g.u8() } else { g.below(4) as u8 }; let eid = 1 + g.u8() % 0xFE; let good = g.below(4) > 0;
                let src = g.u8();
                let mut p = packet_bytes(addr, src, 0, &[0x80, 0x01, op, eid]);
                if !good { let l = p.len(); p[l - 1] ^= 0x5A; }
                let fill = if g.below(3) == 0 { 0u8 } else { g.u8() };
                let mut rb = [fill; 64];
                let r = quiet(|| c.process_packet(&p, &mut rb).map(|x| x.1)).map_err(|m| format!("process_packet({}) panicked: {}", hex(&p), m))?;
                if good && (op == 0 || op == 1) { model_eid = eid; model_eid_s = eid; }
                trace.push(format!("process({})", hex(&p)));
                if !good && rb.iter().any(|b| *b != fill) { return Err(format!("history {:?}: rejected Set Endpoint ID but the response buffer was written", trace)); }
                if good {
                    match r { Ok(Some(16)) => {}, o => return Err(format!("history {:?}: Set Endpoint ID not answered: {:?}", trace, o.map_err(|e| err_class(&e)))) }
                    if rb[16..].iter().any(|b| *b != fill) { return Err(format!("history {:?}: Set Endpoint ID answer of 16 bytes, but bytes beyond the reported length were written", trace)); }
                    // C12: the answer travels back to the requester, from the responder's own address, and is well-formed
                    if rb[..16] != packet_bytes(src, addr, 0, &rb[9..15])[..] || rb[9] & 0xE0 != 0 || rb[10] != 0x01 {
                        return Err(format!("history {:?}: Set Endpoint ID (operation {}) answered with {} which is not a well-formed response back to requester {:#x}", trace, op, hex(&rb[..16]), src));
                    }
                    if (op == 0 || op == 1) && rb[11..15] != [0, 0, eid, 0] { return Err(format!("history {:?}: assignment answered with {}", trace, hex(&rb[..16]))); }
                    if op != 0 && op != 1 && (rb[11] != 2 || rb[13] != model_eid_s) { return Err(format!("history {:?}: Set Endpoint ID with non-assigning operation {} answered with {}", trace, op, hex(&rb[..16]))); }
                }
            }
            _ => {
                let p = gen_packet(g);
                if decode_known_panic(&p) || process_known_panic(&p, vids.len()) { continue; }
                let is_assign = decode_accepts(&p) && p[8] & 0x7f == 0 && p[9] & 0x80 != 0 && p[10] == 1 && (p[11] == 0 || p[11] == 1);
                let mut rb = [0xA5u8; 72];
                let pr = quiet(|| c.process_packet(&p, &mut rb).map(|((t, pl), n)| (t as u8, pl.to_vec(), n))).map_err(|m| format!("history {:?}: process_packet({}) panicked: {}", trace, hex(&p), m))?;
                if is_assign { model_eid = p[12]; model_eid_s = p[12]; }
                trace.push(format!("process({})", hex(&p)));
                // C11 at every point of a history: same outcome as decoding these bytes alone (on a fresh context),
                // a response only for an accepted control request, otherwise no byte of the response buffer written
                let fresh = MCTPSMBusContext::new(0x55, &[], &[]);
                let d = quiet(|| fresh.decode_packet(&p).map(|(t, pl)| (t as u8, pl.to_vec()))).map_err(|m| format!("decode_packet({}) panicked: {}", hex(&p), m))?;
                match (&d, &pr) {
                    (Ok((t, pl)), Ok((t2, pl2, on))) => {
                        if t != t2 || pl != pl2 { return Err(format!("history {:?}: process_packet reports another type/payload than decoding alone", trace)); }
                        let answerable = *t == 0 && p[9] & 0x80 != 0 && cmd_answered(p[10]);
                        if on.is_some() != answerable { return Err(format!("history {:?}: response={:?} but the packet is{} an accepted control request for an answered command", trace, on, if answerable { "" } else { " not" })); }
                        if on.is_none() && rb.iter().any(|b| *b != 0xA5) { return Err(format!("history {:?}: no response reported but the response buffer was written", trace)); }
                    }
                    (Err(e), Err(e2)) => {
                        if err_class(e) != err_class(e2) { return Err(format!("history {:?}: process_packet error {} differs from decoding alone {}", trace, err_class(e2), err_class(e))); }
                        if rb.iter().any(|b| *b != 0xA5) { return Err(format!("history {:?}: rejected packet but the response buffer was written", trace)); }
                    }
                    _ => return Err(format!("history {:?}: process_packet and decoding alone disagree on acceptance", trace)),
                }
            }
        }
        if c.get_request().get_eid() != model_eid || c.get_response().get_eid() != model_eid_s {
            return Err(format!("history {:?}: EID is {}/{} expected {}/{}", trace, c.get_request().get_eid(), c.get_response().get_eid(), model_eid, model_eid_s));
        }
    }
    // observe through Get Endpoint ID, Get Endpoint UUID, Get Message Type Support
    let mut rb = [0u8; 64];
    let q = packet_bytes(addr, 0x11, 0, &[0x80, 0x02]);
    match c.process_packet(&q, &mut rb) { Ok((_, Some(16))) if rb[12] == model_eid_s => {}, o => return Err(format!("history {:?}: Get Endpoint ID reports {} expected {} ({:?})", trace, rb[12], model_eid_s, o.map(|x| x.1).map_err(|e| err_class(&e)))) }
    let q = packet_bytes(addr, 0x11, 0, &[0x80, 0x03]);
    match c.process_packet(&q, &mut rb) { Ok((_, Some(29))) if rb[12..28] == model_uuid => {}, o => return Err(format!("history {:?}: Get Endpoint UUID reports {} expected {} ({:?})", trace, hex(&rb[12..28]), hex(&model_uuid), o.map(|x| x.1).map_err(|e| err_class(&e)))) }
    let q = packet_bytes(addr, 0x11, 0, &[0x80, 0x05]);
    match c.process_packet(&q, &mut rb) { Ok((_, Some(n))) if n == 14 + types.len() && rb[12] as usize == types.len() && rb[13..n - 1] == types[..] => {}, o => return Err(format!("history {:?}: Get Message Type Support wrong ({:?})", trace, o.map(|x| x.1).map_err(|e| err_class(&e)))) }
    Ok(())
}

/// C14: following next selectors from 0 enumerates every configured set exactly once, in order
fn chk_enumerate(g: &mut Gen) -> Result<(), String> {
    let (addr, types, vids) = ctx_cfg(g);
    let c = MCTPSMBusContext::new(addr, &types, &vids);
    let mut sel = 0u8;
    let mut seen = 0usize;
    // interleave with out-of-order queries
    loop {
        if g.below(3) == 0 { let s = g.below(vids.len()) as u8; let q = packet_bytes(addr, 0x22, 0, &[0x80, 0x06, s]); let mut rb = [0u8; 64]; let _ = c.process_packet(&q, &mut rb); }
        let q = packet_bytes(addr, 0x22, 0, &[0x80, 0x06, sel]);
        let mut rb = [0u8; 64];
        let n = match c.process_packet(&q, &mut rb) { Ok((_, Some(n))) => n, o => return Err(format!("selector {} not answered: {:?}", sel, o.map(|x| x.1).map_err(|e| err_class(&e)))) };
        let v = &vids[sel as usize];
        let mut f = vec![0u8, 0, v.format];
        if v.format == 0 { f.extend_from_slice(&[(v.data >> 8) as u8, v.data as u8]); } else { f.extend_from_slice(&v.data.to_be_bytes()); }
        f.extend_from_slice(&v.numeric_value.to_be_bytes());
        if rb[11] != 0 || rb[13..n - 1] != f[2..] { return Err(format!("selector {} of {} sets answered with {} expected set fields {}", sel, vids.len(), hex(&rb[..n]), hex(&f[2..]))); }
        seen += 1;
        let next = rb[12];
        if next == 0xFF { break; }
        if next as usize != sel as usize + 1 { return Err(format!("selector {} of {} sets: next selector {}", sel, vids.len(), next)); }
        sel = next;
        if seen > vids.len() { break; }
    }
    if seen != vids.len() { return Err(format!("enumeration visited {} of {} sets", seen, vids.len())); }
    Ok(())
}

/// C18/C19: header views and code-point tables against the layout table / numeric values (sampled; the proof is Kani's)
fn chk_views(g: &mut Gen) -> Result<(), String> {
    use libmctp::base_packet::{MCTPMessageBodyHeader, MCTPTransportHeader};
    use libmctp::smbus_proto::MCTPSMBusHeader;
    use libmctp::vendor_packets::{IANAMessageFormat, PCIMessageFormat};
    let raw = [g.u8(), g.u8(), g.u8(), g.u8()];
    let v = g.u8();
    let mut t = MCTPTransportHeader(raw);
    if t.hdr_version() != raw[0] & 0xf || t.dest_endpoint_id() != raw[1] || t.source_endpoint_id() != raw[2] || t.som() != raw[3] >> 7 || t.eom() != (raw[3] >> 6) & 1
        || t.pkt_seq() != (raw[3] >> 4) & 3 || t.to() != (raw[3] >> 3) & 1 || t.msg_tag() != raw[3] & 7 { return Err(format!("transport header getters wrong for {}", hex(&raw))); }
    t.set_pkt_seq(v);
    if t.0 != [raw[0], raw[1], raw[2], (raw[3] & !0x30) | ((v & 3) << 4)] { return Err(format!("set_pkt_seq({}) on {} gives {}", v, hex(&raw), hex(&t.0))); }
    let ver = if g.bool() { 1 } else { g.u8() };
    let ok = MCTPTransportHeader::new_from_buf(raw, ver).is_ok();
    if ok != (raw[0] >> 4 == 0 && raw[0] & 0x0f == ver) { return Err(format!("transport header validator wrong for {} version {}", hex(&raw), ver)); }
    {
        use libmctp::smbus_proto::SMBusRoutingInformationUpdateEntry;
        let mut e = SMBusRoutingInformationUpdateEntry(raw);
        if e.entry_type() != raw[0] & 0x0f || e.eid_range_size() != raw[1] || e.first_eid() != raw[2] || e.physical_address() != raw[3] { return Err(format!("routing entry getters wrong for {}", hex(&raw))); }
        e.set_entry_type(v);
        if e.0 != [(raw[0] & 0xf0) | (v & 0x0f), raw[1], raw[2], raw[3]] { return Err(format!("set_entry_type({}) on {} gives {}", v, hex(&raw), hex(&e.0))); }
        let mut t2 = MCTPTransportHeader(raw);
        t2.set_som(v); t2.set_eom(!v);
        if t2.0[3] != (raw[3] & 0x3f) | ((v & 1) << 7) | ((!v & 1) << 6) || t2.som() != v & 1 || t2.eom() != !v & 1 { return Err(format!("set_som/set_eom({}) on {} gives {}", v, hex(&raw), hex(&t2.0))); }
        let mut b = MCTPMessageBodyHeader([raw[0]]);
        b.set_msg_type(v);
        if b.0[0] != (raw[0] & 0x80) | (v & 0x7f) || b.msg_type() != v & 0x7f { return Err(format!("set_msg_type({}) on {:#x} gives {:#x}", v, raw[0], b.0[0])); }
        let mut ch2 = MCTPControlMessageHeader([raw[0], raw[1]]);
        ch2.set_instance_id(v);
        if ch2.0 != [(raw[0] & 0xe0) | (v & 0x1f), raw[1]] { return Err(format!("set_instance_id({}) on {} gives {}", v, hex(&raw[..2]), hex(&ch2.0))); }
        let w16 = u16::from_be_bytes([raw[2], raw[3]]);
        let mut pc = PCIMessageFormat([raw[0], raw[1]]);
        pc.set_vendor_id(w16);
        if pc.0 != [raw[2], raw[3]] || PCIMessageFormat::new(w16).0 != [raw[2], raw[3]] { return Err(format!("PCI set_vendor_id({:#x}) gives {}", w16, hex(&pc.0))); }
        let w32 = u32::from_be_bytes(raw);
        if IANAMessageFormat::new(w32).0 != raw { return Err(format!("IANA new({:#x})", w32)); }
    }
    let okb = MCTPMessageBodyHeader::new_from_buf([raw[0]]).is_ok();
    if okb != (raw[0] & 0x80 == 0 && [0u8, 5, 6, 0x7e, 0x7f].contains(&(raw[0] & 0x7f))) { return Err(format!("message body header validator wrong for {:#x}", raw[0])); }
    let mut s = MCTPSMBusHeader(raw);
    if s.dest_read_write() != raw[0] & 1 || s.dest_slave_addr() != raw[0] >> 1 || s.command_code() != raw[1] || s.byte_count() != raw[2] || s.source_read_write() != raw[3] & 1 || s.source_slave_addr() != raw[3] >> 1 { return Err(format!("SMBus header getters wrong for {}", hex(&raw))); }
    s.set_source_slave_addr(v);
    if s.0 != [raw[0], raw[1], raw[2], (raw[3] & 1) | ((v & 0x7f) << 1)] { return Err(format!("set_source_slave_addr({}) on {} gives {}", v, hex(&raw), hex(&s.0))); }
    let ch = MCTPControlMessageHeader([raw[0], raw[1]]);
    if ch.rq() != raw[0] >> 7 || ch.d() != (raw[0] >> 6) & 1 || ch.instance_id() != raw[0] & 0x1f || ch.command_code() != raw[1] { return Err(format!("control header getters wrong for {}", hex(&raw[..2]))); }
    let pci = PCIMessageFormat([raw[0], raw[1]]);
    if pci.vendor_id() != u16::from_be_bytes([raw[0], raw[1]]) { return Err("PCI vendor id getter".into()); }
    let iana = IANAMessageFormat(raw);
    if iana.vendor_id() != u32::from_be_bytes(raw) { return Err("IANA vendor id getter".into()); }
    // C19: every defined code point maps to the variant DSP0236 names for it (independent table, by variant)
    {
        use CommandCode::*;
        let table = [(0x00u8, Reserved), (0x01, SetEndpointID), (0x02, GetEndpointID), (0x03, GetEndpointUUID), (0x04, GetMCTPVersionSupport),
            (0x05, GetMessageTypeSupport), (0x06, GetVendorDefinedMessageSupport), (0x07, ResolveEndpointID), (0x08, AllocateEndpointIDs),
            (0x09, RoutingInformationUpdate), (0x0A, GetRoutingTableEntries), (0x0B, PrepareForEndpointDiscovery), (0x0C, EndpointDiscovery),
            (0x0D, DiscoveryNotify), (0x0E, GetNetworkID), (0x0F, QueryHop), (0x10, ResolveUUID), (0x11, QueryRateLimit), (0x12, RequestTXRateLimit),
            (0x13, UpdateRateLimit), (0x14, QuerySupportedInterfaces), (0xFF, Unknown)];
        let (code, want) = table[g.below(table.len())];
        if CommandCode::from(code) != want || want as u8 != code { return Err(format!("CommandCode code point {:#x} maps to {:?}", code, CommandCode::from(code))); }
        let mts = [(0x00u8, MessageType::MCtpControl), (0x05, MessageType::SpdmOverMctp), (0x06, MessageType::SecuredMessages), (0x7E, MessageType::VendorDefinedPCI), (0x7F, MessageType::VendorDefinedIANA)];
        for (c, w) in mts { if MessageType::from(c) != w { return Err(format!("MessageType code point {:#x}", c)); } }
        let ccs = [(0u8, CompletionCode::Success), (1, CompletionCode::Error), (2, CompletionCode::ErrorInvalidData), (3, CompletionCode::ErrorInvalidLength), (4, CompletionCode::ErrorNotReady), (5, CompletionCode::ErrorUnsupportedCmd)];
        for (c, w) in ccs { if CompletionCode::from(c) != w { return Err(format!("CompletionCode code point {}", c)); } }
    }
    let n = g.u8();
    if CommandCode::from(n) as u8 != (if n <= 0x14 { n } else { 0xFF }) { return Err(format!("CommandCode::from({:#x})", n)); }
    if MessageType::from(n) as u8 != mt_of(n) { return Err(format!("MessageType::from({:#x})", n)); }
    if n <= 5 && CompletionCode::from(n) as u8 != n { return Err(format!("CompletionCode::from({})", n)); }
    Ok(())
}

pub fn checks_for(pid: &str) -> Vec<(&'static str, Chk)> {
    let enc: (&'static str, Chk) = ("encoders", chk_encoders);
    let rcv: (&'static str, Chk) = ("receive", chk_receive);
    let bur: (&'static str, Chk) = ("burst", chk_burst);
    let his: (&'static str, Chk) = ("history", chk_history);
    let enu: (&'static str, Chk) = ("enumerate", chk_enumerate);
    let vie: (&'static str, Chk) = ("views", chk_views);
    match pid {
        "C01" => vec![enc, rcv],
        "C02" => vec![bur, rcv],
        "C03" | "C04" | "C05" => vec![enc, rcv],
        "C07" => vec![enc, rcv, his],
        "C06" | "C08" | "C16" => vec![enc],
        "C11" => vec![rcv, his, enc],
        "C09" | "C17" => vec![rcv, enc],
        "C10" => vec![rcv, his, enc],
        "C12" => vec![rcv, his],
        "C13" => vec![his, rcv],
        "C14" => vec![enu, his, rcv],
        "C15" => vec![his, rcv],
        "C18" | "C19" => vec![vie],
        _ => vec![enc, rcv, bur, his, enu, vie],
    }
}

pub fn check_by_name(name: &str) -> Option<Chk> {
    match name { "encoders" => Some(chk_encoders), "receive" => Some(chk_receive), "burst" => Some(chk_burst), "history" => Some(chk_history), "enumerate" => Some(chk_enumerate), "views" => Some(chk_views), _ => None }
}
