//! Plain-Rust reference functions written from the property statements (independent of libmctp).
/// CRC-8, polynomial x^8+x^2+x+1, init 0, no reflection, no final xor (C03)
pub fn crc8(data: &[u8]) -> u8 {
    let mut c = 0u8;
    for b in data {
        c ^= *b;
        for _ in 0..8 {
            c = if c & 0x80 != 0 { (c << 1) ^ 7 } else { c << 1 };
        }
    }
    c
}
/// packet_spec: SMBus header, transport header, type byte, body, PEC (C03/C04/C05)
pub fn packet_bytes(dst: u8, me: u8, mt: u8, body: &[u8]) -> Vec<u8> {
    let mut v = vec![(dst & 0x7f) << 1, 0x0F, (6 + body.len()) as u8, ((me & 0x7f) << 1) | 1, 0x01, dst, me, 0xC8, mt];
    v.extend_from_slice(body);
    let p = crc8(&v);
    v.push(p);
    v
}

// ---- reference decoder (C09), over raw bytes: mirrors spec/verif_prelude.rs (hdr_ok, pec_ok, ctrl_ok, decode_accepts ...)
pub fn mt_supported(t: u8) -> bool { matches!(t, 0 | 5 | 6 | 0x7e | 0x7f) }
pub fn mt_of(t: u8) -> u8 { if mt_supported(t) { t } else { 0xFF } }
pub fn hdr_ok(p: &[u8]) -> bool { p.len() >= 10 && p[4] == 1 && p[8] & 0x80 == 0 && mt_supported(p[8] & 0x7f) }
pub fn pec_ok(p: &[u8]) -> bool { !p.is_empty() && p[p.len() - 1] == crc8(&p[..p.len() - 1]) }
pub fn req_len(cmd: u8) -> usize { match cmd { 1 => 2, 4 | 6 | 7 => 1, 8 => 3, _ => 0 } }
/// C09's list (Set EID 3, UUID 16, Version 5)
pub fn resp_len(cmd: u8) -> usize { match cmd { 1 => 3, 3 => 16, 4 => 5, _ => 0 } }
/// the library's table including the three entries that are outside the claim of C09
pub fn resp_len_lib(cmd: u8) -> usize { match cmd { 1 => 3, 2 => 4, 3 => 16, 4 => 5, 8 => 4, 9 => 1, _ => 0 } }
pub fn ctrl_data_len(p: &[u8]) -> isize { if p[9] & 0x80 != 0 { p.len() as isize - 12 } else { p.len() as isize - 13 } }
pub fn ctrl_fixed_len(p: &[u8]) -> usize { if p[9] & 0x80 != 0 { req_len(p[10]) } else { resp_len_lib(p[10]) } }
pub fn c09_claimed(p: &[u8]) -> bool { !(hdr_ok(p) && p[8] & 0x7f == 0 && p.len() >= 12 && p[9] & 0x80 == 0 && matches!(p[10], 2 | 8 | 9)) }
pub fn decode_accepts(p: &[u8]) -> bool {
    if !(hdr_ok(p) && pec_ok(p)) { return false; }
    if p[8] & 0x7f != 0 { return true; }
    if p.len() < 12 { return false; }
    if p[9] & 0x80 == 0 && !(p.len() >= 13 && p[11] == 0) { return false; }
    let f = ctrl_fixed_len(p);
    f == 0 || ctrl_data_len(p) == f as isize
}
pub fn payload_start(p: &[u8]) -> usize { if p[8] & 0x7f == 0 { if p[9] & 0x80 != 0 { 11 } else { 12 } } else { 9 } }
/// no decoder panic class is recorded any more (D9a-c fixed)
pub fn decode_known_panic(_p: &[u8]) -> bool { false }
/// no processor panic class is recorded any more (D10a-c fixed)
pub fn process_known_panic(_p: &[u8], _n_vendor: usize) -> bool { false }
/// the commands this endpoint answers; every other accepted control request is handed to the caller without a response
pub fn cmd_answered(c: u8) -> bool { (1..=6).contains(&c) }
/// completion code of an answer: ErrorInvalidData for a Set Endpoint ID operation other than Set/Force and for a vendor
/// selector at or beyond the configured sets, else Success
pub fn answer_completion(p: &[u8], n_vendor: usize) -> u8 {
    if (p[10] == 1 && p[11] != 0 && p[11] != 1) || (p[10] == 6 && p[11] as usize >= n_vendor) { 2 } else { 0 }
}
