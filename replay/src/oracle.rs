//! Plain-Rust reference functions written from the property statements (independent of libmctp).
/// CRC-8, polynomial x^8+x^2+x+1, init 0, no reflection, no final xor (C03)
pub fn crc8(data: &[u8]) -> u8 {
    let mut c = 0u8;
    for b in data {
        c ^= *b;
        for _ in 0..8 {
            c = if c & 0x80 != 0 { (c << 1) ^ 7 } else { c << 1 };
        }
    }
    c
}
/// packet_spec: SMBus header, transport header, type byte, body, PEC (C03/C04/C05)
pub fn packet_bytes(dst: u8, me: u8, mt: u8, body: &[u8]) -> Vec<u8> {
    let mut v = vec![(dst & 0x7f) << 1, 0x0F, (6 + body.len()) as u8, ((me & 0x7f) << 1) | 1, 0x01, dst, me, 0xC8, mt];
    v.extend_from_slice(body);
    let p = crc8(&v);
    v.push(p);
    v
}
