//! Native witnesses / replays against the real libmctp crate (path dependency on /repo).
//! `replay witness <name>` runs one named witness and prints one line:
//!    WITNESS <name> <verdict> <detail>
//! verdict: reproduces | fixed | other
//! Built with overflow checks on (C10 is stated under overflow checking).
use libmctp::control_packet::*;
use libmctp::smbus::MCTPSMBusContext;
use libmctp::vendor_packets::VendorIDFormat;
use libmctp::MessageType;
use libmctp::mctp_traits::SMBusMCTPRequestResponse;
use std::panic::{catch_unwind, AssertUnwindSafe};

mod oracle;
mod search;
use oracle::*;

fn quiet<F: FnOnce() -> R + std::panic::UnwindSafe, R>(f: F) -> Result<R, String> {
    let prev = std::panic::take_hook();
    std::panic::set_hook(Box::new(|_| {}));
    let r = catch_unwind(f);
    std::panic::set_hook(prev);
    r.map_err(|e| {
        if let Some(s) = e.downcast_ref::<&str>() { s.to_string() } else if let Some(s) = e.downcast_ref::<String>() { s.clone() } else { "panic".into() }
    })
}

fn ctx<'a>(addr: u8, mt: &'a [u8], v: &'a [VendorIDFormat]) -> MCTPSMBusContext<'a> {
    MCTPSMBusContext::new(addr, mt, v)
}

fn hex(b: &[u8]) -> String { b.iter().map(|x| format!("{:02x}", x)).collect::<Vec<_>>().join("") }

fn witness(name: &str) -> (String, String) {
    let mt = [0x7Eu8];
    let vids = [VendorIDFormat { format: 0, data: 0x1414, numeric_value: 4 }];
    let c = ctx(0x23, &mt, &vids);
    match name {
        // D1: IANA vendor message: payload loses its last byte; 10-byte IANA packet panics
        "D1.iana_payload" => {
            let mut buf = [0u8; 64];
            let fmt = VendorIDFormat { format: 1, data: 0x0102_0304, numeric_value: 0 };
            let msg = [0xAAu8, 0xBB, 0xCC];
            let n = c.get_request().vendor_defined(0x34, &fmt, &msg, &mut buf).unwrap();
            let pkt = buf[..n].to_vec();
            let r = quiet(AssertUnwindSafe(|| c.decode_packet(&pkt).map(|(t, p)| (t, p.to_vec()))));
            match r {
                Ok(Ok((MessageType::VendorDefinedIANA, p))) if p == pkt[9..n - 1].to_vec() => ("fixed".into(), format!("payload {}", hex(&p))),
                Ok(Ok((_, p))) => ("reproduces".into(), format!("packet {} decoded payload {} expected {}", hex(&pkt), hex(&p), hex(&pkt[9..n - 1]))),
                other => ("other".into(), format!("{:?}", other.map(|x| x.map(|y| y.1)))),
            }
        }
        "D1.iana_len10_panic" => {
            let mut pkt = packet_bytes(0x34, 0x23, 0x7F, &[]);
            assert_eq!(pkt.len(), 10);
            let r = quiet(AssertUnwindSafe(|| c.decode_packet(&pkt).map(|(t, p)| (t, p.to_vec()))));
            pkt.truncate(10);
            match r {
                Err(m) => ("reproduces".into(), format!("packet {} panics: {}", hex(&pkt), m)),
                Ok(Ok((MessageType::VendorDefinedIANA, p))) if p.is_empty() => ("fixed".into(), "accepted with empty payload".into()),
                Ok(x) => ("other".into(), format!("{:?}", x.map(|y| y.1))),
            }
        }
        // D2: process_packet rejects SPDM / secured messages that decode_packet accepts
        "D2.process_spdm" | "D2.process_secured" => {
            let t = if name.ends_with("spdm") { 0x05 } else { 0x06 };
            let pkt = packet_bytes(0x34, 0x23, t, &[1, 2, 3]);
            let d = c.decode_packet(&pkt).map(|(t, p)| (t, p.to_vec()));
            let mut rb = [0u8; 64];
            let p = c.process_packet(&pkt, &mut rb).map(|((t, p), n)| (t, p.to_vec(), n));
            match (&d, &p) {
                (Ok((dt, dp)), Ok((pt, pp, None))) if dt == pt && dp == pp => ("fixed".into(), "process agrees with decode".into()),
                (Ok(_), Err(e)) => ("reproduces".into(), format!("packet {} decode Ok, process Err({:?})", hex(&pkt), e)),
                _ => ("other".into(), format!("decode {:?} process {:?}", d, p)),
            }
        }
        // D3: get_length on fewer than three bytes panics
        "D3.get_length_short" => {
            let mut verdict = ("fixed".to_string(), "lengths 0,1,2 rejected".to_string());
            for n in 0..3usize {
                let pkt = vec![0x0Fu8; n];
                match quiet(AssertUnwindSafe(|| c.get_length(&pkt))) {
                    Err(m) => { verdict = ("reproduces".into(), format!("input of {} bytes panics: {}", n, m)); break; }
                    Ok(Err(_)) => {}
                    Ok(Ok(l)) => { verdict = ("other".into(), format!("input of {} bytes accepted with length {}", n, l)); break; }
                }
            }
            verdict
        }
        // D4: decode_packet on inputs too short for the headers panics
        "D4.decode_short" => {
            let full = packet_bytes(0x34, 0x23, 0x00, &[0x80, 0x02]);
            let full_resp = packet_bytes(0x34, 0x23, 0x00, &[0x00, 0x02, 0x00, 0x01, 0x02, 0x03]);
            let full_vendor = packet_bytes(0x34, 0x23, 0x7E, &[0x14, 0x14]);
            let mut verdict = ("fixed".to_string(), "all truncations rejected or accepted without panic".to_string());
            'o: for f in [&full, &full_resp, &full_vendor] {
                for n in 0..f.len() {
                    let pkt = f[..n].to_vec();
                    if let Err(m) = quiet(AssertUnwindSafe(|| c.decode_packet(&pkt).map(|(t, p)| (t, p.to_vec())))) {
                        verdict = ("reproduces".into(), format!("truncation {} ({} bytes) panics: {}", hex(&pkt), n, m));
                        break 'o;
                    }
                    let mut rb = [0u8; 64];
                    if let Err(m) = quiet(AssertUnwindSafe(|| c.process_packet(&pkt, &mut rb).map(|((t, p), n)| (t, p.to_vec(), n)))) {
                        verdict = ("reproduces".into(), format!("process_packet: truncation {} ({} bytes) panics: {}", hex(&pkt), n, m));
                        break 'o;
                    }
                }
            }
            verdict
        }
        // D5: byte count computed as (len as u8) - 4: total length 256..259 panics, longer is truncated instead of refused
        "D5.bytecount_256" => {
            // body after the type byte: 2 header + 245 data = 247 -> total 10 + 247 = 257 (fits: byte count 253)
            let fmt = VendorIDFormat { format: 0, data: 0x1414, numeric_value: 0 };
            let msg = vec![0x5Au8; 245];
            let mut buf = vec![0u8; 400];
            let r = quiet(AssertUnwindSafe(|| c.get_request().vendor_defined(0x34, &fmt, &msg, &mut buf)));
            match r {
                Err(m) => ("reproduces".into(), format!("vendor_defined with 245-byte message (total 257, byte count 253 fits) panics: {}", m)),
                Ok(Ok(257)) if buf[2] == 253 => ("fixed".into(), "encoded, byte count 253".into()),
                Ok(x) => ("other".into(), format!("{:?} bc={}", x, buf[2])),
            }
        }
        "D5.oversize_refused" => {
            let fmt = VendorIDFormat { format: 0, data: 0x1414, numeric_value: 0 };
            let msg = vec![0x5Au8; 300];
            let mut buf = vec![0xEEu8; 400];
            let r = quiet(AssertUnwindSafe(|| c.get_request().vendor_defined(0x34, &fmt, &msg, &mut buf)));
            match r {
                Ok(Err(())) if buf.iter().all(|b| *b == 0xEE) => ("fixed".into(), "refused, buffer untouched".into()),
                Ok(Ok(n)) => ("reproduces".into(), format!("300-byte message encoded (len {}) with truncated byte count {}", n, buf[2])),
                Err(m) => ("reproduces".into(), format!("300-byte message panics: {}", m)),
                Ok(Err(())) => ("other".into(), "refused but buffer modified".into()),
            }
        }

        // D6: the library rejects its own (DSP0236-conformant) Get Endpoint ID Success response: length table 4 vs 3 data bytes
        "D6.get_eid_response_rejected" => {
            let mut buf = [0u8; 64];
            let n = c.get_response().get_endpoint_id(CompletionCode::Success, 0x34, MCTPGetEndpointIDEndpointType::Simple,
                MCTPGetEndpointIDEndpointIDType::DynamicEID, false, &mut buf).unwrap();
            let pkt = buf[..n].to_vec();
            match c.decode_packet(&pkt).map(|(t, p)| (t, p.to_vec())) {
                Ok((MessageType::MCtpControl, p)) if p == pkt[12..n - 1].to_vec() => ("fixed".into(), "own Get Endpoint ID response accepted".into()),
                Err((MessageType::MCtpControl, libmctp::DecodeError::ControlMessage(libmctp::ControlMessageError::InvalidRequestDataLength))) =>
                    ("reproduces".into(), format!("own response {} rejected with InvalidRequestDataLength", hex(&pkt))),
                o => ("other".into(), format!("{:?}", o)),
            }
        }
        // D7: query_hop sends command code 0x0E (Get Network ID) instead of 0x0F (Query Hop)
        "D7.query_hop_code" => {
            let mut buf = [0u8; 64];
            let n = c.get_request().query_hop(0x34, 0x55, MessageType::SpdmOverMctp, &mut buf).unwrap();
            let exp = packet_bytes(0x34, 0x23, 0x00, &[0x80, 0x0F, 0x55, 0x05]);
            let got = buf[..n].to_vec();
            if got == exp { ("fixed".into(), "command code 0x0F".into()) }
            else if got == packet_bytes(0x34, 0x23, 0x00, &[0x80, 0x0E, 0x55, 0x05]) { ("reproduces".into(), format!("query_hop emits {} (command code 0x0e)", hex(&got))) }
            else { ("other".into(), format!("query_hop emits {}", hex(&got))) }
        }
        // D8: responses always carry instance ID 0 instead of the request's
        "D8.instance_id" => {
            let req = packet_bytes(0x23, 0x34, 0x00, &[0x80 | 5, 0x02]);
            let mut rb = [0u8; 64];
            match c.process_packet(&req, &mut rb) {
                Ok((_, Some(n))) if n >= 13 => {
                    let iid = rb[9] & 0x1f;
                    if iid == 5 { ("fixed".into(), "response echoes instance ID 5".into()) }
                    else if iid == 0 { ("reproduces".into(), format!("request {} (instance ID 5) answered with instance ID 0: {}", hex(&req), hex(&rb[..n]))) }
                    else { ("other".into(), format!("instance id {}", iid)) }
                }
                o => ("other".into(), format!("{:?}", o.map(|x| x.1))),
            }
        }
        // D9a (fixed): control request with a command code above 0x08 used to hit unimplemented!() in the request length table;
        // now accepted (no fixed length) with the bytes after the command code as payload - for the library's own encoders too
        "D9a.request_cmd_unimplemented" => {
            let mut verdict = ("fixed".to_string(), "requests for commands 0x09..0xFF decode with the right payload".to_string());
            for cmd in 0x09u8..=0xFF {
                let pkt = packet_bytes(0x23, 0x34, 0x00, &[0x80, cmd, 0x00, 0x11]);
                match quiet(AssertUnwindSafe(|| c.decode_packet(&pkt).map(|(t, p)| (t, p.to_vec())))) {
                    Err(m) => { verdict = ("reproduces".into(), format!("decode_packet({}) panics: {}", hex(&pkt), m)); break; }
                    Ok(Ok((MessageType::MCtpControl, p))) if p == vec![0x00, 0x11] => {}
                    Ok(o) => { verdict = ("other".into(), format!("decode_packet({}) = {:?}", hex(&pkt), o.map(|x| x.1))); break; }
                }
            }
            if verdict.0 == "fixed" {
                let mut buf = [0u8; 64];
                let n = c.get_request().get_routing_table_entries(0x34, 0x07, &mut buf).unwrap();
                match quiet(AssertUnwindSafe(|| c.decode_packet(&buf[..n]).map(|(t, p)| (t, p.to_vec())))) {
                    Ok(Ok((MessageType::MCtpControl, p))) if p == vec![0x07] => {}
                    o => verdict = ("other".into(), format!("own Get Routing Table Entries request: {:?}", o.map(|x| x.map(|y| y.1)))),
                }
            }
            verdict
        }
        // D9b (fixed): Success control response for command 0x07 or above 0x09 used to hit unimplemented!() in the response length table
        "D9b.response_cmd_unimplemented" => {
            let mut verdict = ("fixed".to_string(), "Success responses for commands 0x07, 0x0A..0xFF decode with the right payload".to_string());
            for cmd in (0x07u8..=0x07).chain(0x0A..=0xFF) {
                let pkt = packet_bytes(0x23, 0x34, 0x00, &[0x00, cmd, 0x00, 0x01]);
                match quiet(AssertUnwindSafe(|| c.decode_packet(&pkt).map(|(t, p)| (t, p.to_vec())))) {
                    Err(m) => { verdict = ("reproduces".into(), format!("decode_packet({}) panics: {}", hex(&pkt), m)); break; }
                    Ok(Ok((MessageType::MCtpControl, p))) if p == vec![0x01] => {}
                    Ok(o) => { verdict = ("other".into(), format!("decode_packet({}) = {:?}", hex(&pkt), o.map(|x| x.1))); break; }
                }
            }
            verdict
        }
        // D9c (fixed): a control response with a completion code above 0x05 used to reach unreachable!() in CompletionCode::from;
        // now rejected with ControlMessageError::Unknown (decode and process), nothing written
        "D9c.completion_code_unreachable" => {
            let mut verdict = ("fixed".to_string(), "responses with completion codes 0x06..0xFF are rejected with ControlMessageError::Unknown".to_string());
            for cc in 0x06u8..=0xFF {
                let pkt = packet_bytes(0x23, 0x34, 0x00, &[0x00, 0x02, cc, 0x01]);
                let mut rb = [0xEEu8; 64];
                let d = quiet(AssertUnwindSafe(|| c.decode_packet(&pkt).map(|(t, p)| (t, p.to_vec()))));
                let pr = quiet(AssertUnwindSafe(|| c.process_packet(&pkt, &mut rb).map(|((t, p), n)| (t, p.to_vec(), n))));
                let want = (MessageType::MCtpControl, libmctp::DecodeError::ControlMessage(libmctp::ControlMessageError::Unknown));
                match (d, pr) {
                    (Err(m), _) | (_, Err(m)) => { verdict = ("reproduces".into(), format!("decode/process_packet({}) panics: {}", hex(&pkt), m)); break; }
                    (Ok(Err(e1)), Ok(Err(e2))) if e1 == want && e2 == want && rb.iter().all(|b| *b == 0xEE) => {}
                    (Ok(a), Ok(b)) => { verdict = ("other".into(), format!("decode_packet({}) = {:?}, process_packet = {:?}", hex(&pkt), a.map(|x| x.1), b.map(|x| x.2))); break; }
                }
            }
            verdict
        }
        // L1 (limitation outside the listed properties): the public conversion From<u8> for CompletionCode panics above 0x05
        "L1.completion_code_from_panics" => {
            match quiet(AssertUnwindSafe(|| CompletionCode::from(6u8) as u8)) {
                Err(m) => ("reproduces".into(), format!("CompletionCode::from(6) panics: {}", m)),
                Ok(v) => ("fixed".into(), format!("CompletionCode::from(6) = {}", v)),
            }
        }
        // D10a (fixed): an accepted control request for a command the endpoint has no answer for used to hit
        // unreachable!()/unimplemented!() in process_packet; now reported to the caller: decoded, no response, buffer untouched
        "D10a.process_cmd_0" | "D10a.process_cmd_7" | "D10a.process_cmd_8" | "D10a.process_cmd_above_8" => {
            let pkts = match name {
                "D10a.process_cmd_0" => vec![packet_bytes(0x23, 0x34, 0x00, &[0x80, 0x00])],
                "D10a.process_cmd_7" => vec![packet_bytes(0x23, 0x34, 0x00, &[0x80, 0x07, 0x09])],
                "D10a.process_cmd_8" => vec![packet_bytes(0x23, 0x34, 0x00, &[0x80, 0x08, 0x00, 0x01, 0x02])],
                _ => (0x09u8..=0xFF).map(|cmd| packet_bytes(0x23, 0x34, 0x00, &[0x80, cmd, 0x01, 0x02])).collect(),
            };
            let mut verdict = ("fixed".to_string(), "decoded, no response, response buffer untouched".to_string());
            for pkt in pkts {
                let mut rb = [0xEEu8; 64];
                match quiet(AssertUnwindSafe(|| c.process_packet(&pkt, &mut rb).map(|((t, p), n)| (t, p.to_vec(), n)))) {
                    Err(m) => { verdict = ("reproduces".into(), format!("process_packet({}) panics: {}", hex(&pkt), m)); break; }
                    Ok(Ok((MessageType::MCtpControl, p, None))) if p == pkt[11..pkt.len() - 1].to_vec() && rb.iter().all(|b| *b == 0xEE) => {}
                    Ok(o) => { verdict = ("other".into(), format!("process_packet({}) = {:?} buffer {}", hex(&pkt), o.map(|x| (x.1, x.2)), hex(&rb[..16]))); break; }
                }
            }
            verdict
        }
        // D10b (fixed): Set Endpoint ID with operation Reset (2) or an operation byte above 3 used to panic; now answered with
        // ErrorInvalidData, the EID stays what it was
        "D10b.set_eid_reset" | "D10b.set_eid_op_4" => {
            let ops: Vec<u8> = if name.ends_with("reset") { vec![2] } else { (4u8..=0xFF).collect() };
            let mut verdict = ("fixed".to_string(), "answered with ErrorInvalidData, EID unchanged".to_string());
            c.get_request().set_eid(0x77);
            c.get_response().set_eid(0x77);
            for op in ops {
                let pkt = packet_bytes(0x23, 0x34, 0x00, &[0x80, 0x01, op, 0x42]);
                let mut rb = [0u8; 64];
                match quiet(AssertUnwindSafe(|| c.process_packet(&pkt, &mut rb).map(|((t, p), n)| (t, p.to_vec(), n)))) {
                    Err(m) => { verdict = ("reproduces".into(), format!("process_packet({}) panics: {}", hex(&pkt), m)); break; }
                    Ok(Ok((MessageType::MCtpControl, _, Some(16)))) if rb[..16] == packet_bytes(0x34, 0x23, 0x00, &[0x00, 0x01, 0x02, rb[12], 0x77, 0x00])[..]
                        && c.get_request().get_eid() == 0x77 && c.get_response().get_eid() == 0x77 => {}
                    Ok(o) => { verdict = ("other".into(), format!("process_packet({}) = {:?} response {}", hex(&pkt), o.map(|x| x.2), hex(&rb[..16]))); break; }
                }
            }
            verdict
        }
        // D10c (fixed): Get Vendor Defined Message Support with a selector >= the number of configured sets (1 here) used to
        // panic (index / +1 overflow); now answered with ErrorInvalidData, end selector 0xFF and no vendor ID
        "D10c.selector_out_of_range" | "D10c.selector_ff" => {
            let sels: Vec<u8> = if name.ends_with("ff") { vec![0xFF] } else { (1u8..=0xFE).collect() };
            let mut verdict = ("fixed".to_string(), "answered with ErrorInvalidData / selector 0xFF / no vendor ID".to_string());
            for sel in sels {
                let pkt = packet_bytes(0x23, 0x34, 0x00, &[0x80, 0x06, sel]);
                let mut rb = [0u8; 64];
                match quiet(AssertUnwindSafe(|| c.process_packet(&pkt, &mut rb).map(|((t, p), n)| (t, p.to_vec(), n)))) {
                    Err(m) => { verdict = ("reproduces".into(), format!("process_packet({}) panics: {}", hex(&pkt), m)); break; }
                    Ok(Ok((MessageType::MCtpControl, _, Some(14)))) if rb[..14] == packet_bytes(0x34, 0x23, 0x00, &[0x00, 0x06, 0x02, 0xFF])[..] => {}
                    Ok(o) => { verdict = ("other".into(), format!("process_packet({}) = {:?} response {}", hex(&pkt), o.map(|x| x.2), hex(&rb[..16]))); break; }
                }
            }
            verdict
        }
        _ => ("unknown-witness".into(), String::new()),
    }
}

fn main() {
    let args: Vec<String> = std::env::args().collect();
    if args.len() >= 3 && args[1] == "witness" {
        for n in &args[2..] {
            let (v, d) = witness(n);
            println!("WITNESS {} {} {}", n, v, d);
        }
        return;
    }
    if args.len() >= 5 && args[1] == "search" {
        // replay search <PID> <seed> <iterations>
        let pid = &args[2];
        let seed: u64 = args[3].parse().unwrap_or(0);
        let iters: u64 = args[4].parse().unwrap_or(1000);
        let prev = std::panic::take_hook();
        std::panic::set_hook(Box::new(|_| {}));
        let mut evals = 0u64;
        let mut distinct = std::collections::HashSet::new();
        for (name, chk) in search::checks_for(pid) {
            for i in 0..iters {
                let mut g = search::Gen::random(seed.wrapping_add(i).wrapping_mul(2654435761).wrapping_add(name.len() as u64));
                let r = match std::panic::catch_unwind(std::panic::AssertUnwindSafe(|| chk(&mut g))) {
                    Ok(r) => r,
                    Err(e) => Err(format!("the library panicked during check '{}': {}", name,
                        if let Some(s) = e.downcast_ref::<&str>() { s.to_string() } else if let Some(s) = e.downcast_ref::<String>() { s.clone() } else { "panic".into() })),
                };
                evals += 1;
                distinct.insert(g.tape.iter().take(24).cloned().collect::<Vec<u8>>());
                if let Err(m) = r {
                    let tape: String = g.tape.iter().map(|b| format!("{:02x}", b)).collect();
                    println!("FOUND {{\"check\":\"{}\",\"tape\":\"{}\",\"detail\":{:?}}}", name, tape, m);
                    std::panic::set_hook(prev);
                    return;
                }
            }
        }
        std::panic::set_hook(prev);
        println!("NONE evaluations={} distinct={}", evals, distinct.len());
        return;
    }
    if args.len() >= 3 && args[1] == "checks" {
        // replay checks <PID>: the names of the differential checks that cover a property
        let names: Vec<&str> = search::checks_for(&args[2]).iter().map(|c| c.0).collect();
        println!("{}", names.join(" "));
        return;
    }
    if args.len() >= 4 && args[1] == "case" {
        // replay case <check> <tape-hex>
        let chk = match search::check_by_name(&args[2]) { Some(c) => c, None => { eprintln!("unknown check"); std::process::exit(2) } };
        let h = &args[3];
        let tape: Vec<u8> = (0..h.len() / 2).map(|i| u8::from_str_radix(&h[2 * i..2 * i + 2], 16).unwrap_or(0)).collect();
        let prev = std::panic::take_hook();
        std::panic::set_hook(Box::new(|_| {}));
        let r = match std::panic::catch_unwind(std::panic::AssertUnwindSafe(|| chk(&mut search::Gen::replay(tape)))) {
            Ok(r) => r,
            Err(e) => Err(format!("the library panicked: {}", if let Some(s) = e.downcast_ref::<&str>() { s.to_string() } else if let Some(s) = e.downcast_ref::<String>() { s.clone() } else { "panic".into() })),
        };
        std::panic::set_hook(prev);
        match r { Err(m) => { println!("REPRODUCED {}", m); std::process::exit(1) } Ok(()) => { println!("NOT-REPRODUCED"); return } }
    }
    eprintln!("usage: replay witness <name>... | search <PID> <seed> <iters> | case <check> <tape>");
    std::process::exit(2);
}
