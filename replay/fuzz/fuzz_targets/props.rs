//! Coverage-guided version of the native differential search: the fuzz input is the tape from which a check draws
//! all its choices (first byte selects the check).  A check that returns Err, or a panic of the library, aborts the
//! process - libFuzzer then writes the tape as a crash artifact, which `replay case <check> <tape>` replays.
#![no_main]
use libfuzzer_sys::fuzz_target;

#[path = "../../src/oracle.rs"]
mod oracle;
#[path = "../../src/search.rs"]
mod search;

const CHECKS: [&str; 6] = ["encoders", "receive", "burst", "history", "enumerate", "views"];

fuzz_target!(|data: &[u8]| {
    if data.len() < 2 {
        return;
    }
    let which = match std::env::var("VERIF_FUZZ_CHECK") { Ok(n) => CHECKS.iter().position(|c| *c == n).unwrap_or(0), Err(_) => (data[0] as usize) % CHECKS.len() };
    let chk = search::check_by_name(CHECKS[which]).unwrap();
    let mut g = search::Gen::replay(data[1..].to_vec());
    if let Err(m) = chk(&mut g) {
        eprintln!("FUZZ-FOUND check={} detail={}", CHECKS[which], m);
        std::process::abort();
    }
});
