// Kani contract harnesses on the REAL crate for everything that flows through std::cell::Cell (which the Verus
// unit only knows by its weakest contract), the unrewritten enumerate loops (R3 cross-check), derived PartialEq and
// the enum discriminant tables.  Appended by the driver to a scratch copy of src/smbus.rs as a child module, so the
// private selector cell and private functions are reachable; nothing is committed to /repo.
#[cfg(kani)]
mod verif_kani_state {
    #![allow(unused_imports, unused_mut, dead_code)]
    use super::*;
    use crate::control_packet::*;
    use crate::mctp_traits::SMBusMCTPRequestResponse;
    use crate::smbus_proto::SMBusRoutingInformationUpdateEntry;

    // ---- oracle (written from the property statements)
    fn crc8(data: &[u8]) -> u8 {
        let mut c = 0u8;
        let mut i = 0;
        while i < data.len() {
            c ^= data[i];
            let mut k = 0;
            while k < 8 {
                c = if c & 0x80 != 0 { (c << 1) ^ 7 } else { c << 1 };
                k += 1;
            }
            i += 1;
        }
        c
    }
    /// weakest contract of smbus_pec::pec ("returns some u8"): a sound over-approximation for frame properties
    fn pec_havoc(_data: &[u8]) -> u8 {
        kani::any()
    }

    fn any_vendor() -> VendorIDFormat {
        let f: u8 = kani::any();
        kani::assume(f <= 1);
        VendorIDFormat { format: f, data: kani::any(), numeric_value: kani::any() }
    }

    fn havoc_cells(c: &MCTPSMBusContext) {
        c.get_request().set_eid(kani::any());
        c.get_response().set_eid(kani::any());
        c.vendor_id_selector.set(kani::any());
    }

    // ------------------------------------------------------------------ K.cell.acc (C13)
    #[kani::proof]
    fn k_cell_acc() {
        let a: u8 = kani::any();
        let mt = [0u8; 1];
        let v = [any_vendor()];
        let c = MCTPSMBusContext::new(a, &mt, &v);
        assert!(c.get_request().get_eid() == 0 && c.get_response().get_eid() == 0); // 0 before any assignment
        let x: u8 = kani::any();
        let y: u8 = kani::any();
        c.get_request().set_eid(x);
        assert!(c.get_request().get_eid() == x && c.get_response().get_eid() == 0);
        c.get_response().set_eid(y);
        assert!(c.get_request().get_eid() == x && c.get_response().get_eid() == y);
        assert!(c.get_request().get_address() == a && c.get_response().get_address() == a);
        assert!(c.vendor_id_selector.get() == 0);
        kani::cover!(true);
    }

    // ------------------------------------------------------------------ K.cell.enc (C07, C13): the EID byte of the responses
    #[kani::proof]
    #[kani::unwind(10)]
    #[kani::stub(smbus_pec::pec, pec_havoc)]
    fn k_cell_enc_set_endpoint_id() {
        let r = crate::smbus_response::MCTPSMBusContextResponse::new(kani::any());
        let e: u8 = kani::any();
        r.set_eid(e);
        let cc = CompletionCode::from({ let n: u8 = kani::any(); kani::assume(n <= 5); n });
        let st = if kani::any() { MCTPSetEndpointIDAssignmentStatus::Accpeted } else { MCTPSetEndpointIDAssignmentStatus::Rejected };
        let al = match kani::any::<u8>() % 3 { 0 => MCTPSetEndpointIDAllocationStatus::NoIDPool, 1 => MCTPSetEndpointIDAllocationStatus::RequiresAllocation, _ => MCTPSetEndpointIDAllocationStatus::AlreadyAllocated };
        let mut buf: [u8; 20] = kani::any();
        let n = r.set_endpoint_id(cc, kani::any(), st, al, &mut buf).unwrap();
        assert!(n == 16 && buf[13] == e);
        assert!(r.get_eid() == e);
        kani::cover!(true);
    }

    #[kani::proof]
    #[kani::unwind(10)]
    #[kani::stub(smbus_pec::pec, pec_havoc)]
    fn k_cell_enc_get_endpoint_id() {
        let r = crate::smbus_response::MCTPSMBusContextResponse::new(kani::any());
        let e: u8 = kani::any();
        r.set_eid(e);
        let cc = CompletionCode::from({ let n: u8 = kani::any(); kani::assume(n <= 5); n });
        let et = if kani::any() { MCTPGetEndpointIDEndpointType::Simple } else { MCTPGetEndpointIDEndpointType::Bus };
        let it = match kani::any::<u8>() % 4 { 0 => MCTPGetEndpointIDEndpointIDType::DynamicEID, 1 => MCTPGetEndpointIDEndpointIDType::StaticEID,
            2 => MCTPGetEndpointIDEndpointIDType::StaticPresentMatchEID, _ => MCTPGetEndpointIDEndpointIDType::StaticPresentNoMatchEID };
        let mut buf: [u8; 20] = kani::any();
        let n = r.get_endpoint_id(cc, kani::any(), et, it, kani::any(), &mut buf).unwrap();
        assert!(n == 16 && buf[12] == e);
        assert!(r.get_eid() == e);
        kani::cover!(true);
    }

    // ------------------------------------------------------------------ K.step (C13): accepted Set Endpoint ID
    #[kani::proof]
    #[kani::unwind(10)]
    #[kani::stub(smbus_pec::pec, pec_havoc)]
    fn k_step_set_eid() {
        let mt = [0x7Eu8; 1];
        let v = [any_vendor()];
        let c = MCTPSMBusContext::new(kani::any(), &mt, &v);
        havoc_cells(&c);
        let (e0r, e0s, s0) = (c.get_request().get_eid(), c.get_response().get_eid(), c.vendor_id_selector.get());
        let mut p: [u8; 14] = kani::any();
        // an accepted Set Endpoint ID request: version 1, control type, request bit, command 1, EVERY operation byte
        p[4] = 1;
        p[8] = 0;
        kani::assume(p[9] & 0x80 != 0);
        p[10] = 1;
        let mut rb: [u8; 64] = kani::any();
        let r = c.process_packet(&p, &mut rb);
        // pec runs under its weakest contract (any u8): keep the executions in which the PEC comparisons passed.
        // That such packets ARE accepted is the Verus clause C11.accept_iff.
        kani::assume(r.is_ok());
        match r {
            Ok(((t, pl), Some(n))) => {
                assert!(t == MessageType::MCtpControl && pl.len() == 2 && n == 16);
                if p[11] == 0 || p[11] == 1 {
                    // assignment: both halves take the new EID and the answer is Success / accepted / new EID
                    assert!(c.get_request().get_eid() == p[12] && c.get_response().get_eid() == p[12]);
                    assert!(rb[11] == 0 && rb[12] == 0 && rb[13] == p[12] && rb[14] == 0);
                } else {
                    // Reset EID, Set Discovered Flag, undefined operation: ErrorInvalidData, no assignment, the old EID is reported
                    assert!(c.get_request().get_eid() == e0r && c.get_response().get_eid() == e0s);
                    assert!(rb[11] == 2);
                    assert!(rb[13] == e0s);
                }
                assert!(c.vendor_id_selector.get() == s0);
            }
            _ => assert!(false),
        }
        kani::cover!(true);
    }

    // ------------------------------------------------------------------ K.step frame (C02, C13): everything else leaves the EID alone;
    // a rejected packet changes no cell and no response byte
    fn step_frame<const L: usize>() {
        let mt = [0x7Eu8; 1];
        let v = [any_vendor()];
        let c = MCTPSMBusContext::new(kani::any(), &mt, &v);
        havoc_cells(&c);
        let (e0r, e0s, s0) = (c.get_request().get_eid(), c.get_response().get_eid(), c.vendor_id_selector.get());
        let buf: [u8; L] = kani::any();
        let len: usize = kani::any();
        kani::assume(len <= L);
        let p = &buf[0..len];
        let assigning = len == 14 && p[4] == 1 && p[8] == 0 && p[9] & 0x80 != 0 && p[10] == 1 && (p[11] == 0 || p[11] == 1);
        let rb0: [u8; 64] = kani::any();
        let mut rb = rb0;
        let r = c.process_packet(p, &mut rb);
        if !assigning {
            assert!(c.get_request().get_eid() == e0r && c.get_response().get_eid() == e0s);
        }
        match r {
            Err(_) | Ok((_, None)) => {
                // every response byte unchanged (symbolic index = for all k)
                let k: usize = kani::any();
                kani::assume(k < 64);
                assert!(rb[k] == rb0[k]);
                if r.is_err() {
                    assert!(c.vendor_id_selector.get() == s0);
                    assert!(c.get_request().get_eid() == e0r && c.get_response().get_eid() == e0s);
                }
            }
            _ => {}
        }
        kani::cover!(r.is_err());
        kani::cover!(r.is_ok());
    }
    #[kani::proof]
    #[kani::unwind(10)]
    #[kani::stub(smbus_pec::pec, pec_havoc)]
    fn k_step_frame() {
        step_frame::<24>();
    }
    #[kani::proof]
    #[kani::unwind(10)]
    #[kani::stub(smbus_pec::pec, pec_havoc)]
    fn k_step_frame_long() {
        step_frame::<64>();
    }

    // ------------------------------------------------------------------ decode-only calls and the probe leave every cell alone (C13)
    #[kani::proof]
    #[kani::unwind(10)]
    #[kani::stub(smbus_pec::pec, pec_havoc)]
    fn k_decode_keeps_state() {
        let mt = [0x7Eu8; 1];
        let v = [any_vendor()];
        let c = MCTPSMBusContext::new(kani::any(), &mt, &v);
        havoc_cells(&c);
        let (e0r, e0s, s0) = (c.get_request().get_eid(), c.get_response().get_eid(), c.vendor_id_selector.get());
        let buf: [u8; 24] = kani::any();
        let len: usize = kani::any();
        kani::assume(len <= 24);
        let p = &buf[0..len];
        let _ = c.decode_packet(p);
        let _ = c.get_length(p);
        assert!(c.get_request().get_eid() == e0r && c.get_response().get_eid() == e0s && c.vendor_id_selector.get() == s0);
        kani::cover!(true);
    }

    // ------------------------------------------------------------------ encoders leave the cells alone (thorough)
    #[kani::proof]
    #[kani::unwind(10)]
    #[kani::stub(smbus_pec::pec, pec_havoc)]
    fn k_encode_keeps_state() {
        let mt = [0x7Eu8; 1];
        let v = [any_vendor()];
        let c = MCTPSMBusContext::new(kani::any(), &mt, &v);
        havoc_cells(&c);
        let (e0r, e0s, s0) = (c.get_request().get_eid(), c.get_response().get_eid(), c.vendor_id_selector.get());
        let mut buf: [u8; 32] = kani::any();
        let _ = c.get_request().get_endpoint_id(kani::any(), &mut buf);
        let _ = c.get_request().set_endpoint_id(kani::any(), MCTPSetEndpointIDOperations::SetEID, kani::any(), &mut buf);
        let _ = c.get_response().get_mctp_version_support(CompletionCode::Success, kani::any(), &mut buf);
        let _ = c.get_response().get_endpoint_id(CompletionCode::Success, kani::any(), MCTPGetEndpointIDEndpointType::Simple, MCTPGetEndpointIDEndpointIDType::DynamicEID, false, &mut buf);
        assert!(c.get_request().get_eid() == e0r && c.get_response().get_eid() == e0s && c.vendor_id_selector.get() == s0);
        kani::cover!(true);
    }

    // ------------------------------------------------------------------ K.sel (C14): next selector and vendor field, n <= 16 sets
    #[kani::proof]
    #[kani::unwind(18)]
    #[kani::stub(smbus_pec::pec, pec_havoc)]
    fn k_sel_next_selector() {
        let mt = [0x7Eu8; 1];
        let all: [VendorIDFormat; 16] = [
            any_vendor(), any_vendor(), any_vendor(), any_vendor(), any_vendor(), any_vendor(), any_vendor(), any_vendor(),
            any_vendor(), any_vendor(), any_vendor(), any_vendor(), any_vendor(), any_vendor(), any_vendor(), any_vendor(),
        ];
        let n: usize = kani::any();
        kani::assume(1 <= n && n <= 16);
        let c = MCTPSMBusContext::new(kani::any(), &mt, &all[0..n]);
        havoc_cells(&c);
        let i: u8 = kani::any(); // every selector byte, in range or not
        let s0 = c.vendor_id_selector.get();
        let mut p: [u8; 13] = kani::any();
        p[4] = 1;
        p[8] = 0;
        kani::assume(p[9] & 0x80 != 0);
        p[10] = 6;
        p[11] = i;
        let mut rb: [u8; 64] = kani::any();
        let r = c.process_packet(&p, &mut rb);
        kani::assume(r.is_ok()); // pec under its weakest contract, see k_step_set_eid
        match r {
            Ok((_, Some(m))) if (i as usize) >= n => {
                // out of range (fix of D10c): ErrorInvalidData, end selector, no vendor ID, stored selector untouched
                assert!(m == 14 && rb[11] == 2 && rb[12] == 0xFF);
                assert!(c.vendor_id_selector.get() == s0);
            }
            Ok((_, Some(m))) => {
                let exp_next = if i as usize + 1 == n { 0xFFu8 } else { i + 1 };
                assert!(rb[11] == 0); // Success
                assert!(rb[12] == exp_next);
                assert!(c.vendor_id_selector.get() == exp_next);
                let vi = &all[i as usize];
                assert!(rb[13] == vi.format);
                if vi.format == 0 {
                    assert!(m == 19 && rb[14] == (vi.data >> 8) as u8 && rb[15] == vi.data as u8);
                    assert!(rb[16] == (vi.numeric_value >> 8) as u8 && rb[17] == vi.numeric_value as u8);
                } else {
                    assert!(m == 21 && rb[14] == (vi.data >> 24) as u8 && rb[15] == (vi.data >> 16) as u8 && rb[16] == (vi.data >> 8) as u8 && rb[17] == vi.data as u8);
                    assert!(rb[18] == (vi.numeric_value >> 8) as u8 && rb[19] == vi.numeric_value as u8);
                }
            }
            _ => assert!(false),
        }
        kani::cover!((i as usize) < n);
        kani::cover!((i as usize) >= n);
    }

    // ------------------------------------------------------------------ K.enum: the three enumerate loops, unrewritten (R3 cross-check)
    #[kani::proof]
    #[kani::unwind(10)]
    #[kani::stub(smbus_pec::pec, pec_havoc)]
    fn k_enum_routing_update() {
        let rq = crate::smbus_request::MCTPSMBusContextRequest::new(kani::any());
        let raw: [[u8; 4]; 7] = kani::any();
        let ents = [
            SMBusRoutingInformationUpdateEntry::new_from_buf(raw[0]), SMBusRoutingInformationUpdateEntry::new_from_buf(raw[1]),
            SMBusRoutingInformationUpdateEntry::new_from_buf(raw[2]), SMBusRoutingInformationUpdateEntry::new_from_buf(raw[3]),
            SMBusRoutingInformationUpdateEntry::new_from_buf(raw[4]), SMBusRoutingInformationUpdateEntry::new_from_buf(raw[5]),
            SMBusRoutingInformationUpdateEntry::new_from_buf(raw[6]),
        ];
        let n: usize = kani::any();
        kani::assume(n <= 7);
        let mut buf: [u8; 48] = kani::any();
        let m = rq.routing_information_update(kani::any(), &ents[0..n], &mut buf).unwrap();
        assert!(m == 13 + 4 * n);
        assert!(buf[10] == 0x09 && buf[11] == n as u8);
        let k: usize = kani::any(); // symbolic index = for all k
        kani::assume(k < 4 * n);
        assert!(buf[12 + k] == raw[k / 4][k % 4]);
        kani::cover!(n == 7);
    }

    #[kani::proof]
    #[kani::unwind(33)]
    #[kani::stub(smbus_pec::pec, pec_havoc)]
    fn k_enum_msg_types() {
        let r = crate::smbus_response::MCTPSMBusContextResponse::new(kani::any());
        let types: [u8; 30] = kani::any();
        let n: usize = kani::any();
        kani::assume(n <= 30);
        let mut buf: [u8; 48] = kani::any();
        let m = r.get_message_type_suport(CompletionCode::Success, kani::any(), &types[0..n], &mut buf).unwrap();
        assert!(m == 14 + n && buf[11] == 0 && buf[12] == n as u8);
        let k: usize = kani::any();
        kani::assume(k < n);
        assert!(buf[13 + k] == types[k]);
        kani::cover!(n == 30);
    }

    #[kani::proof]
    #[kani::unwind(10)]
    #[kani::stub(smbus_pec::pec, pec_havoc)]
    fn k_enum_vendor_field() {
        let r = crate::smbus_response::MCTPSMBusContextResponse::new(kani::any());
        let vf: [u8; 7] = kani::any();
        let n: usize = kani::any();
        kani::assume(n <= 7);
        let sel: u8 = kani::any();
        let mut buf: [u8; 24] = kani::any();
        let m = r.get_vendor_defined_message_support(CompletionCode::Success, kani::any(), sel, &vf[0..n], &mut buf).unwrap();
        assert!(m == 14 + n && buf[11] == 0 && buf[12] == sel);
        let k: usize = kani::any();
        kani::assume(k < n);
        assert!(buf[13 + k] == vf[k]);
        kani::cover!(n == 7);
    }

    // ------------------------------------------------------------------ the LINKED smbus_pec::pec equals the bitwise CRC-8 of C03
    // (cross-check of R4: Verus proves the contract on the macro expansion for all lengths; this checks the compiled
    // dependency itself, bounded in the length)
    fn pec_matches<const L: usize>() {
        let buf: [u8; L] = kani::any();
        let len: usize = kani::any();
        kani::assume(len <= L);
        assert!(smbus_pec::pec(&buf[0..len]) == crc8(&buf[0..len]));
        kani::cover!(len == L);
    }
    #[kani::proof]
    #[kani::unwind(10)]
    fn k_pec_matches_crc8() {
        pec_matches::<6>();
    }
    #[kani::proof]
    #[kani::unwind(18)]
    fn k_pec_matches_crc8_long() {
        pec_matches::<16>();
    }

    // ------------------------------------------------------------------ K.eq: derived PartialEq = equality of variants
    #[kani::proof]
    fn k_eq_message_type() {
        let a: u8 = kani::any();
        let b: u8 = kani::any();
        let (x, y) = (MessageType::from(a), MessageType::from(b));
        let same = x == y;
        assert!(same == (x as u8 == y as u8));
        kani::cover!(same);
    }
    #[kani::proof]
    fn k_eq_completion_code() {
        let a: u8 = kani::any();
        let b: u8 = kani::any();
        kani::assume(a <= 5 && b <= 5);
        let (x, y) = (CompletionCode::from(a), CompletionCode::from(b));
        let same = x == y;
        assert!(same == (a == b));
        kani::cover!(same);
    }
    #[kani::proof]
    fn k_eq_assignment_status() {
        let a: bool = kani::any();
        let b: bool = kani::any();
        let x = if a { MCTPSetEndpointIDAssignmentStatus::Rejected } else { MCTPSetEndpointIDAssignmentStatus::Accpeted };
        let y = if b { MCTPSetEndpointIDAssignmentStatus::Rejected } else { MCTPSetEndpointIDAssignmentStatus::Accpeted };
        assert!((x == y) == (a == b));
        kani::cover!(a != b);
    }

    // ------------------------------------------------------------------ discriminant tables (C19 cross-check of `as u8`)
    #[kani::proof]
    fn k_from_tables() {
        let n: u8 = kani::any();
        let c = CommandCode::from(n);
        assert!(c as u8 == if n <= 0x14 { n } else { 0xFF });
        let m = MessageType::from(n);
        assert!(m as u8 == if n == 0 || n == 5 || n == 6 || n == 0x7E || n == 0x7F { n } else { 0xFF });
        if n <= 5 {
            assert!(CompletionCode::from(n) as u8 == n);
        }
        kani::cover!(n > 0x14);
    }

    // ------------------------------------------------------------------ K.hdr: SECOND BACK END for the loop-free header builders.
    // Each harness states exactly the labelled Verus clause of one builder over its FULL argument domain (complete, not
    // bounded).  The driver runs one only when the Verus proof of that builder did not go through (e.g. the setter
    // calls were reordered and the bit-vector hint no longer matches): SUCCESSFUL => the clause is discharged by
    // Kani/CBMC instead of Verus/Z3; FAILED => violation with Kani's counterexample.  (cones.toml [second_backend])
    #[kani::proof]
    fn k_hdr_transport() {
        // C05.transport: [rsvd 0 | version 1, destination EID, own address, SOM 1 EOM 1 seq 0 TO 1 tag 0 = 0xC8], both halves
        let a: u8 = kani::any();
        let d: u8 = kani::any();
        let mt = [0u8; 1];
        let v = [any_vendor()];
        let c = MCTPSMBusContext::new(a, &mt, &v);
        havoc_cells(&c);
        assert!(c.get_request().generate_transport_header(d).0 == [0x01, d, a, 0xC8]);
        assert!(c.get_response().generate_transport_header(d).0 == [0x01, d, a, 0xC8]);
        kani::cover!(d != a);
    }
    #[kani::proof]
    fn k_hdr_smbus() {
        // C04.smbus_hdr: [(dst & 0x7f) << 1, 0x0F, byte count 0 (set by finalise), ((own & 0x7f) << 1) | 1], both halves
        let a: u8 = kani::any();
        let d: u8 = kani::any();
        let mt = [0u8; 1];
        let v = [any_vendor()];
        let c = MCTPSMBusContext::new(a, &mt, &v);
        havoc_cells(&c);
        let want = [(d & 0x7f) << 1, 0x0F, 0, ((a & 0x7f) << 1) | 1];
        assert!(c.get_request().generate_smbus_header(d).0 == want);
        assert!(c.get_response().generate_smbus_header(d).0 == want);
        kani::cover!(d != a);
    }
    #[kani::proof]
    fn k_hdr_ctrl_new() {
        // C06.ctrl_hdr: [Rq<<7 | D<<6 | instance ID & 0x1f, command code]
        let rq: bool = kani::any();
        let dg: bool = kani::any();
        let iid: u8 = kani::any();
        let n: u8 = kani::any();
        let cmd = CommandCode::from(n);
        let code = if n <= 0x14 { n } else { 0xFF };
        let h = MCTPControlMessageHeader::new(rq, dg, iid, cmd);
        assert!(h.0 == [(if rq { 0x80u8 } else { 0 }) | (if dg { 0x40u8 } else { 0 }) | (iid & 0x1f), code]);
        kani::cover!(rq && dg && iid > 0x1f);
    }
    #[kani::proof]
    fn k_hdr_transport_new() {
        // C05.th_new
        let ver: u8 = kani::any();
        assert!(crate::base_packet::MCTPTransportHeader::new(ver).0 == [ver & 0x0f, 0, 0, 0]);
        kani::cover!(ver > 0x0f);
    }
    #[kani::proof]
    fn k_hdr_body_new() {
        // C05.mb_new (the integrity-check bit is refused by the builder: requires !ic)
        let n: u8 = kani::any();
        let m = MessageType::from(n);
        let code = if n == 0 || n == 5 || n == 6 || n == 0x7E || n == 0x7F { n } else { 0xFF };
        assert!(crate::base_packet::MCTPMessageBodyHeader::new(false, m).0 == [code & 0x7f]);
        kani::cover!(code == 0xFF);
    }
    #[kani::proof]
    fn k_hdr_vendor_new() {
        // C08.pci_hdr, C08.iana_hdr: most-significant byte first
        let p: u16 = kani::any();
        assert!(crate::vendor_packets::PCIMessageFormat::new(p).0 == [(p >> 8) as u8, (p & 0xff) as u8]);
        let i: u32 = kani::any();
        assert!(crate::vendor_packets::IANAMessageFormat::new(i).0 == [(i >> 24) as u8, ((i >> 16) & 0xff) as u8, ((i >> 8) & 0xff) as u8, (i & 0xff) as u8]);
        kani::cover!(p > 0xff && i > 0xffffff);
    }
    #[kani::proof]
    fn k_hdr_routing_entry_new() {
        // C06.routing_entry: [entry type & 0x0f, range size, first EID, physical address]
        let t: u8 = kani::any();
        kani::assume(t <= 3);
        let ty = match t {
            0 => RoutingInformationUpdateEntryType::SingleEndpointNotBridge,
            1 => RoutingInformationUpdateEntryType::EIDRangeIncludeBridge,
            2 => RoutingInformationUpdateEntryType::SingleEndpointBridge,
            _ => RoutingInformationUpdateEntryType::EIDRangeNotIncludeBridge,
        };
        let (r, f, pa): (u8, u8, u8) = (kani::any(), kani::any(), kani::any());
        assert!(SMBusRoutingInformationUpdateEntry::new(ty, r, f, pa).0 == [t & 0x0f, r, f, pa]);
        kani::cover!(t == 3);
    }
}
