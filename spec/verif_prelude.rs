//! Property-side specification library for libmctp (written from /verif/properties.jsonl and
//! DSP0236/DSP0237, never derived from the code under verification).
//! Copied verbatim into the scratch crate as module `verif_prelude` on every run.
#![allow(unused_imports)]
use vstd::prelude::*;

verus! {

// =====================================================================================
// CRC-8 / SMBus PEC  (C03: polynomial x^8+x^2+x+1, init 0, no reflection, no final xor)
// =====================================================================================
pub open spec fn crc8_bit(c: u8) -> u8 {
    if c & 0x80 != 0 { (c << 1) ^ 7 } else { c << 1 }
}
pub open spec fn crc8_bits(c: u8, n: nat) -> u8 decreases n {
    if n == 0 { c } else { crc8_bit(crc8_bits(c, (n - 1) as nat)) }
}
pub open spec fn crc8_step(c: u8, b: u8) -> u8 { crc8_bits(c ^ b, 8) }
pub open spec fn crc8(s: Seq<u8>) -> u8 decreases s.len() {
    if s.len() == 0 { 0 } else { crc8_step(crc8(s.drop_last()), s.last()) }
}

/// The dependency's `pec` — assumed here, and PROVED on the macro-expanded text of the locked
/// smbus-pec version in module `verif_pec` (same clause text, generated on every run).
pub assume_specification[ smbus_pec::pec ](data: &[u8]) -> (r: u8)
    ensures r == crc8(data@);

// =====================================================================================
// storage view of the bitfield! structs and std Cell (weakest contracts)
// =====================================================================================
pub uninterp spec fn as_bytes<T>(t: T) -> Seq<u8>;
pub broadcast axiom fn axiom_as_bytes_arr1(a: [u8; 1]) ensures #[trigger] as_bytes(a) == a@;
pub broadcast axiom fn axiom_as_bytes_arr2(a: [u8; 2]) ensures #[trigger] as_bytes(a) == a@;
pub broadcast axiom fn axiom_as_bytes_arr4(a: [u8; 4]) ensures #[trigger] as_bytes(a) == a@;
pub broadcast group group_as_bytes { axiom_as_bytes_arr1, axiom_as_bytes_arr2, axiom_as_bytes_arr4 }

#[verifier::external_type_specification]
#[verifier::external_body]
#[verifier::reject_recursive_types(T)]
pub struct ExCell<T: ?Sized>(core::cell::Cell<T>);
// no functional postconditions: Verus cannot model std interior mutability soundly; every fact about
// the three cells is discharged by Kani on the compiled crate (K.cell.*, K.step, K.sel)
pub assume_specification<T: Copy>[ core::cell::Cell::<T>::get ](c: &core::cell::Cell<T>) -> T;
pub assume_specification<T>[ core::cell::Cell::<T>::new ](v: T) -> core::cell::Cell<T>;
/// WRITE POLICY (effect contract).  `cell_write_ok` is uninterpreted: a function may store `v` into cell `c` only if
/// its own precondition grants it.  Functions without such a precondition (decoder, probe, every encoder, ...) can
/// therefore contain no reachable Cell write at all - for any input of any length - and `process_packet`, whose
/// precondition pins the predicate to "assigning Set Endpoint ID, v = the packet's EID byte" (resp. the next
/// selector), can write nothing else.  Any other way of mutating a Cell (swap, take, ...) has no specification here
/// and is rejected by the verifier.
pub uninterp spec fn cell_write_ok<T>(c: &core::cell::Cell<T>, v: T) -> bool;
pub assume_specification<T>[ core::cell::Cell::<T>::set ](c: &core::cell::Cell<T>, v: T)
    requires cell_write_ok(c, v);
pub assume_specification<T>[ core::cell::Cell::<T>::replace ](c: &core::cell::Cell<T>, v: T) -> T
    requires cell_write_ok(c, v);

// =====================================================================================
// wire format (C04, C05): SMBus header, transport header, whole packet
// =====================================================================================
pub open spec fn opt_seq(o: Option<&[u8]>) -> Seq<u8> {
    match o { Some(s) => s@, None => Seq::<u8>::empty() }
}
/// concatenation of four byte strings, defined index-wise (cheaper for the solver than `+` chains)
pub open spec fn cat4(a: Seq<u8>, b: Seq<u8>, c: Seq<u8>, d: Seq<u8>) -> Seq<u8> {
    Seq::new(a.len() + b.len() + c.len() + d.len(), |i: int|
        if i < a.len() { a[i] } else if i < a.len() + b.len() { b[i - a.len()] }
        else if i < a.len() + b.len() + c.len() { c[i - a.len() - b.len()] } else { d[i - a.len() - b.len() - c.len()] })
}
pub proof fn lemma_cat4(a: Seq<u8>, b: Seq<u8>, c: Seq<u8>, d: Seq<u8>)
    ensures cat4(a, b, c, d) =~= a + b + c + d
{}
/// destination 7-bit address << 1 with the write bit clear, command code 0x0F, byte count,
/// source 7-bit address << 1 with bit 0 set
pub open spec fn smbus_hdr_spec(dst: u8, src: u8, bc: u8) -> Seq<u8> {
    seq![(dst & 0x7f) << 1, 0x0Fu8, bc, ((src & 0x7f) << 1) | 1u8]
}
/// rsvd 0 / header version 1; destination EID; source EID; SOM 1, EOM 1, seq 0, TO 1, tag 0
pub open spec fn transport_hdr_spec(dst: u8, src: u8) -> Seq<u8> {
    seq![0x01u8, dst, src, 0xC8u8]
}
/// everything before the PEC; `body` = the bytes after the message-type byte
pub open spec fn packet_pre(dst: u8, me: u8, mt: u8, body: Seq<u8>) -> Seq<u8> {
    smbus_hdr_spec(dst, me, #[verifier::truncate] ((6 + body.len()) as u8)) + transport_hdr_spec(dst, me) + seq![mt] + body
}
pub open spec fn packet_spec(dst: u8, me: u8, mt: u8, body: Seq<u8>) -> Seq<u8> {
    packet_pre(dst, me, mt, body).push(crc8(packet_pre(dst, me, mt, body)))
}
/// the bytes of packet_spec, index by index
pub proof fn lemma_packet_spec_index(dst: u8, me: u8, mt: u8, body: Seq<u8>)
    ensures
        packet_spec(dst, me, mt, body).len() == 10 + body.len(),
        packet_spec(dst, me, mt, body)[0] == (dst & 0x7f) << 1,
        packet_spec(dst, me, mt, body)[1] == 0x0Fu8,
        packet_spec(dst, me, mt, body)[2] == #[verifier::truncate] ((6 + body.len()) as u8),
        packet_spec(dst, me, mt, body)[3] == ((me & 0x7f) << 1) | 1u8,
        packet_spec(dst, me, mt, body)[4] == 0x01u8,
        packet_spec(dst, me, mt, body)[5] == dst,
        packet_spec(dst, me, mt, body)[6] == me,
        packet_spec(dst, me, mt, body)[7] == 0xC8u8,
        packet_spec(dst, me, mt, body)[8] == mt,
        forall|j: int| 0 <= j < body.len() ==> #[trigger] packet_spec(dst, me, mt, body)[9 + j] == body[j],
        packet_spec(dst, me, mt, body)[9 + body.len() as int] == crc8(packet_spec(dst, me, mt, body).subrange(0, 9 + body.len() as int)),
        packet_spec(dst, me, mt, body).subrange(0, 9 + body.len() as int) =~= packet_pre(dst, me, mt, body),
{
    assert(packet_spec(dst, me, mt, body).subrange(0, 9 + body.len() as int) =~= packet_pre(dst, me, mt, body));
}
/// a buffer whose first 10+|body| bytes are packet_spec(.., body) carries `body` at 9.. and is packet_spec of that sub-range
pub proof fn lemma_packet_spec_body(dst: u8, me: u8, mt: u8, body: Seq<u8>)
    ensures
        forall|b: Seq<u8>| #![trigger b.subrange(9, 9 + body.len() as int)]
            (b.len() >= 10 + body.len() && (forall|i: int| 0 <= i < 10 + body.len() ==> b[i] == packet_spec(dst, me, mt, body)[i]))
            ==> b.subrange(9, 9 + body.len() as int) =~= body,
{
    lemma_packet_spec_index(dst, me, mt, body);
    assert forall|b: Seq<u8>| #![trigger b.subrange(9, 9 + body.len() as int)]
            (b.len() >= 10 + body.len() && (forall|i: int| 0 <= i < 10 + body.len() ==> b[i] == packet_spec(dst, me, mt, body)[i]))
            implies b.subrange(9, 9 + body.len() as int) =~= body by {
        assert forall|j: int| 0 <= j < body.len() implies b.subrange(9, 9 + body.len() as int)[j] == body[j] by {
            assert(b[9 + j] == packet_spec(dst, me, mt, body)[9 + j]);
        }
    }
}
/// largest `body` (bytes after the type byte) the one-byte SMBus byte count can carry: 6+|body| <= 255
pub open spec fn max_body() -> int { 249 }

/// C17: the length probe as a function of bytes 1 and 2
pub open spec fn probe_ok(b1: u8) -> bool { b1 == 0x0F }
pub open spec fn probe_len(b2: u8) -> int { b2 as int + 4 }

// =====================================================================================
// control messages (C06, C07, C09)
// =====================================================================================
pub open spec fn ctrl_hdr_spec(rq: bool, d: bool, iid: u8, cmd: u8) -> Seq<u8> {
    seq![((if rq { 0x80u8 } else { 0u8 }) | (if d { 0x40u8 } else { 0u8 })) | (iid & 0x1f), cmd]
}
pub open spec fn is_req(b: u8) -> bool { b & 0x80 != 0 }
pub open spec fn mt_supported(t: u8) -> bool { t == 0 || t == 5 || t == 6 || t == 0x7e || t == 0x7f }

/// C09: fixed request data lengths (0 = not checked)
pub open spec fn req_len(cmd: u8) -> int {
    if cmd == 1 { 2 } else if cmd == 4 || cmd == 6 || cmd == 7 { 1 } else if cmd == 8 { 3 } else { 0 }
}
/// C09: fixed response data lengths after the completion code (0 = not checked).
/// Entries 2, 8, 9 (Get Endpoint ID, Allocate Endpoint IDs, Routing Information Update) are OUTSIDE
/// the claim of C09 (they disagree with DSP0236; see known finding D6): the values below for them are
/// the library's and only used by clauses labelled X.* that belong to no property.
pub open spec fn resp_len(cmd: u8) -> int {
    if cmd == 1 { 3 } else if cmd == 3 { 16 } else if cmd == 4 { 5 }
    else if cmd == 2 { 4 } else if cmd == 8 { 4 } else if cmd == 9 { 1 } else { 0 }
}
pub open spec fn resp_len_claimed(cmd: u8) -> bool { cmd != 2 && cmd != 8 && cmd != 9 }

// =====================================================================================
// reference decoder (C09), written from the property statement over raw bytes
// =====================================================================================
/// transport header version 1 with zero reserved bits, IC bit clear, supported message type
pub open spec fn hdr_ok(p: Seq<u8>) -> bool {
    p.len() >= 10 && p[4] == 1u8 && p[8] & 0x80 == 0 && mt_supported(p[8] & 0x7f)
}
/// the final byte equals the CRC-8 PEC of all bytes before it (C02/C03)
pub open spec fn pec_ok(p: Seq<u8>) -> bool {
    p.len() >= 1 && p[p.len() - 1] == crc8(p.subrange(0, p.len() - 1))
}
pub open spec fn is_ctrl(p: Seq<u8>) -> bool { p[8] & 0x7f == 0 }
/// number of data bytes of a control message (bytes between the control header [+ completion code] and the PEC)
pub open spec fn ctrl_data_len(p: Seq<u8>) -> int {
    if is_req(p[9]) { p.len() - 12 } else { p.len() - 13 }
}
/// the fixed data length the command requires (0 = not checked)
pub open spec fn ctrl_fixed_len(p: Seq<u8>) -> int {
    if is_req(p[9]) { req_len(p[10]) } else { resp_len(p[10]) }
}
/// control-message conditions of C09: long enough for the control header (and completion code),
/// a response's completion code is Success, the data length equals the fixed length where there is one
pub open spec fn ctrl_ok(p: Seq<u8>) -> bool {
    &&& p.len() >= 12
    &&& (!is_req(p[9]) ==> p.len() >= 13 && p[11] == 0u8)
    &&& (ctrl_fixed_len(p) > 0 ==> ctrl_data_len(p) == ctrl_fixed_len(p))
}
/// C09: the decoder accepts exactly these byte strings
pub open spec fn decode_accepts(p: Seq<u8>) -> bool {
    hdr_ok(p) && pec_ok(p) && (is_ctrl(p) ==> ctrl_ok(p))
}
/// first payload byte: after the command code (request), after the completion code (response),
/// after the message-type byte (vendor / SPDM / secured)
pub open spec fn payload_start(p: Seq<u8>) -> int {
    if is_ctrl(p) { if is_req(p[9]) { 11 } else { 12 } } else { 9 }
}
/// the claim of C09 excludes control responses to Get Endpoint ID, Allocate Endpoint IDs, Routing Information Update
pub open spec fn c09_claimed(p: Seq<u8>) -> bool {
    !(hdr_ok(p) && is_ctrl(p) && p.len() >= 12 && !is_req(p[9]) && !resp_len_claimed(p[10]))
}
/// exact error of the library's decoder, in its order of checks (used only to state C11 "the same error
/// as decoding that input alone"; C09 itself only demands truthful errors, see C09.truthful)
pub enum DecErr { Invalid, ShortCtrl, UnknownCompletion, Completion(u8), BadPec, BadLen }
pub open spec fn decode_err(p: Seq<u8>) -> DecErr {
    if !hdr_ok(p) { DecErr::Invalid }
    else if !is_ctrl(p) { DecErr::BadPec }
    else if p.len() < 12 || (!is_req(p[9]) && p.len() < 13) { DecErr::ShortCtrl }
    else if !is_req(p[9]) && p[11] > 5 { DecErr::UnknownCompletion }   // fix of D9c: not one of the six completion codes
    else if !is_req(p[9]) && p[11] != 0 { DecErr::Completion(p[11]) }
    else if !pec_ok(p) { DecErr::BadPec }
    else { DecErr::BadLen }
}

// =====================================================================================
// request processing (C10-C15)
// =====================================================================================
/// C13: the only input that assigns the EID: an accepted Set Endpoint ID request with operation Set (0) or Force (1)
pub open spec fn is_assigning(p: Seq<u8>) -> bool {
    decode_accepts(p) && is_ctrl(p) && is_req(p[9]) && p[10] == 1 && (p[11] == 0 || p[11] == 1)
}
/// C14: the next selector stored (and returned) for selector i when n sets are configured
pub open spec fn next_selector_byte(i: u8, n: int) -> u8 { if i as int + 1 == n { 0xFFu8 } else { (i + 1) as u8 } }
/// accepted control request: the only inputs that may be answered (C11)
pub open spec fn is_ctrl_request(p: Seq<u8>) -> bool { decode_accepts(p) && is_ctrl(p) && is_req(p[9]) }
/// the commands this endpoint answers (Set/Get Endpoint ID, Get Endpoint UUID, Get MCTP Version Support, Get Message
/// Type Support, Get Vendor Defined Message Support); every other accepted control request is handed to the caller
/// without a response (fix of D10a)
pub open spec fn cmd_answered(c: u8) -> bool { 1 <= c <= 6 }
/// the accepted control requests that are answered
pub open spec fn is_answerable(p: Seq<u8>) -> bool { is_ctrl_request(p) && cmd_answered(p[10]) }
/// completion code of the answer (C12/C13/C14): ErrorInvalidData (2) for a Set Endpoint ID operation other than
/// Set/Force (fix of D10b) and for a vendor-set selector at or beyond the n configured sets (fix of D10c), else Success
pub open spec fn answer_completion(p: Seq<u8>, n_vendor: int) -> u8 {
    if (p[10] == 1 && p[11] != 0 && p[11] != 1) || (p[10] == 6 && p[11] as int >= n_vendor) { 2u8 } else { 0u8 }
}
/// C14: the selector cell is written exactly when an in-range Get Vendor Defined Message Support request is answered
pub open spec fn is_selecting(p: Seq<u8>, n_vendor: int) -> bool { is_answerable(p) && p[10] == 6 && (p[11] as int) < n_vendor }

} // verus!
