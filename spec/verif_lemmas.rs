//! Spec-level lemmas over the byte-level specifications (no code of libmctp involved):
//! CRC algebra for C02/C03, packet_spec facts for C01/C04, enumeration/history lemmas for C13/C14.
#![allow(unused_imports)]
use vstd::prelude::*;
use crate::verif_prelude::*;

verus! {

// ------------------------------------------------------------------------------- CRC-8 algebra
pub proof fn lemma_bit_facts(a: u8, b: u8)
    ensures crc8_bit(a ^ b) == crc8_bit(a) ^ crc8_bit(b),
            crc8_bit(a) == crc8_bit(b) ==> a == b,
            crc8_bit(0) == 0,
{
    assert((if (a^b) & 0x80 != 0 { ((a^b) << 1) ^ 7 } else { (a^b) << 1 })
        == (if a & 0x80 != 0 { (a << 1) ^ 7 } else { a << 1 }) ^ (if b & 0x80 != 0 { (b << 1) ^ 7 } else { b << 1 })) by(bit_vector);
    assert(((if a & 0x80 != 0 { (a << 1) ^ 7 } else { a << 1 }) == (if b & 0x80 != 0 { (b << 1) ^ 7 } else { b << 1 })) ==> a == b) by(bit_vector);
    assert(((0u8) << 1) == 0u8) by(bit_vector);
    assert(0u8 & 0x80 == 0) by(bit_vector);
}
/// crc8_bits(., n) is GF(2)-linear, injective and fixes 0
pub proof fn lemma_bits_linear_inj(a: u8, b: u8, n: nat)
    ensures crc8_bits(a ^ b, n) == crc8_bits(a, n) ^ crc8_bits(b, n),
            crc8_bits(a, n) == crc8_bits(b, n) ==> a == b,
            crc8_bits(0, n) == 0,
    decreases n
{
    if n > 0 {
        lemma_bits_linear_inj(a, b, (n - 1) as nat);
        lemma_bit_facts(crc8_bits(a, (n - 1) as nat), crc8_bits(b, (n - 1) as nat));
    }
}
pub proof fn lemma_crc8_push(s: Seq<u8>, b: u8)
    ensures crc8(s.push(b)) == crc8_bits(crc8(s) ^ b, 8)
{
    assert(s.push(b).drop_last() =~= s);
    assert(s.push(b).last() == b);
}
/// C03: appending the CRC of a string makes the CRC of the whole zero
pub proof fn lemma_crc_append_self(s: Seq<u8>)
    ensures crc8(s.push(crc8(s))) == 0
{
    lemma_crc8_push(s, crc8(s));
    let c = crc8(s);
    assert(c ^ c == 0u8) by(bit_vector);
    lemma_bits_linear_inj(0, 0, 8);
}
/// pec_ok(p) <==> crc8(p) == 0  (for non-empty p)
pub proof fn lemma_pec_ok_iff_crc_zero(p: Seq<u8>)
    requires p.len() >= 1
    ensures pec_ok(p) <==> crc8(p) == 0
{
    let s = p.subrange(0, p.len() - 1);
    let b = p[p.len() - 1];
    assert(p =~= s.push(b));
    assert(p.drop_last() =~= s);
    lemma_crc8_push(s, b);
    let c = crc8(s);
    // crc8(p) = bits(c ^ b, 8); zero iff c ^ b == 0 iff b == c
    lemma_bits_linear_inj(c ^ b, 0, 8);
    assert((c ^ b == 0u8) <==> (b == c)) by(bit_vector);
}

pub open spec fn xor_seq(a: Seq<u8>, b: Seq<u8>) -> Seq<u8> { Seq::new(a.len(), |i: int| a[i] ^ b[i]) }

/// crc8 (init 0) is linear over byte strings of equal length
pub proof fn lemma_crc8_linear(a: Seq<u8>, b: Seq<u8>)
    requires a.len() == b.len()
    ensures crc8(xor_seq(a, b)) == crc8(a) ^ crc8(b)
    decreases a.len()
{
    if a.len() == 0 {
        assert(xor_seq(a, b).len() == 0);
        assert(0u8 ^ 0u8 == 0u8) by(bit_vector);
    } else {
        let a0 = a.drop_last(); let b0 = b.drop_last();
        lemma_crc8_linear(a0, b0);
        assert(xor_seq(a, b).drop_last() =~= xor_seq(a0, b0));
        let c1 = crc8(a0); let c2 = crc8(b0); let x = a.last(); let y = b.last();
        assert(xor_seq(a, b).last() == x ^ y);
        assert((c1 ^ c2) ^ (x ^ y) == (c1 ^ x) ^ (c2 ^ y)) by(bit_vector);
        lemma_bits_linear_inj(c1 ^ x, c2 ^ y, 8);
    }
}
/// a non-zero CRC stays non-zero over any number of zero bytes (injectivity of the zero-byte step)
pub proof fn lemma_crc8_zero_tail(s: Seq<u8>, k: int)
    requires 0 <= k <= s.len(), forall|j: int| k <= j < s.len() ==> s[j] == 0u8, crc8(s.subrange(0, k)) != 0
    ensures crc8(s) != 0
    decreases s.len() - k
{
    if k == s.len() {
        assert(s.subrange(0, k) =~= s);
    } else {
        let t = s.subrange(0, k + 1);
        assert(t.drop_last() =~= s.subrange(0, k));
        assert(t.last() == 0u8);
        let c = crc8(s.subrange(0, k));
        assert(c ^ 0u8 == c) by(bit_vector);
        lemma_bits_linear_inj(c, 0, 8);
        lemma_crc8_zero_tail(s, k + 1);
    }
}
pub proof fn lemma_crc8_zero_prefix(s: Seq<u8>)
    requires forall|j: int| 0 <= j < s.len() ==> s[j] == 0u8
    ensures crc8(s) == 0
    decreases s.len()
{
    if s.len() > 0 {
        lemma_crc8_zero_prefix(s.drop_last());
        assert(0u8 ^ 0u8 == 0u8) by(bit_vector);
        lemma_bits_linear_inj(0, 0, 8);
    }
}

pub proof fn bv_burst(c0: u8, c1: u8, c2: u8, c3: u8, c4: u8, c5: u8, c6: u8, c7: u8, c8: u8, x: u8, s: u8, t: u8)
    by(bit_vector)
    requires
        x != 0 && ((s == 1 && t == 7) || (s == 2 && t == 6) || (s == 3 && t == 5) || (s == 4 && t == 4) || (s == 5 && t == 3) || (s == 6 && t == 2) || (s == 7 && t == 1))
        && c0 == x >> s
        && c1 == (if c0 & 0x80 != 0 { (c0 << 1) ^ 7 } else { c0 << 1 })
        && c2 == (if c1 & 0x80 != 0 { (c1 << 1) ^ 7 } else { c1 << 1 })
        && c3 == (if c2 & 0x80 != 0 { (c2 << 1) ^ 7 } else { c2 << 1 })
        && c4 == (if c3 & 0x80 != 0 { (c3 << 1) ^ 7 } else { c3 << 1 })
        && c5 == (if c4 & 0x80 != 0 { (c4 << 1) ^ 7 } else { c4 << 1 })
        && c6 == (if c5 & 0x80 != 0 { (c5 << 1) ^ 7 } else { c5 << 1 })
        && c7 == (if c6 & 0x80 != 0 { (c6 << 1) ^ 7 } else { c6 << 1 })
        && c8 == (if c7 & 0x80 != 0 { (c7 << 1) ^ 7 } else { c7 << 1 })
    ensures c8 != (x << t)
{}
/// the CRC of the high part of an 8-bit burst that straddles two bytes never equals its low part
pub proof fn lemma_burst_two_bytes(x: u8, s: u8)
    requires x != 0, 1 <= s <= 7
    ensures crc8_bits(x >> s, 8) != (x << ((8 - s) as u8))
{
    reveal_with_fuel(crc8_bits, 9);
    let c0 = x >> s;
    let c1 = crc8_bit(c0); let c2 = crc8_bit(c1); let c3 = crc8_bit(c2); let c4 = crc8_bit(c3);
    let c5 = crc8_bit(c4); let c6 = crc8_bit(c5); let c7 = crc8_bit(c6); let c8 = crc8_bit(c7);
    bv_burst(c0, c1, c2, c3, c4, c5, c6, c7, c8, x, s, (8 - s) as u8);
    assert(crc8_bits(c0, 8) == c8);
}

/// e is a non-zero error pattern confined to 8 consecutive bits: byte i carries x >> s, byte i+1 (if any)
/// carries the s bits shifted out, every other byte is zero.
pub open spec fn is_burst(e: Seq<u8>, i: int, s: u8, x: u8) -> bool {
    &&& 0 <= i < e.len() && s <= 7
    &&& e[i] == x >> s
    &&& (i + 1 < e.len() ==> e[i + 1] == (if s == 0 { 0u8 } else { x << ((8 - s) as u8) }))
    &&& (forall|j: int| 0 <= j < e.len() && j != i && j != i + 1 ==> e[j] == 0u8)
    &&& (e[i] != 0 || (i + 1 < e.len() && e[i + 1] != 0))
}
pub proof fn lemma_burst_crc_nonzero(e: Seq<u8>, i: int, s: u8, x: u8)
    requires is_burst(e, i, s, x)
    ensures crc8(e) != 0
{
    let pre = e.subrange(0, i);
    assert(forall|j: int| 0 <= j < pre.len() ==> pre[j] == 0u8);
    lemma_crc8_zero_prefix(pre);
    let h = e[i];
    let t1 = e.subrange(0, i + 1);
    assert(t1.drop_last() =~= pre);
    assert(t1.last() == h);
    assert(0u8 ^ h == h) by(bit_vector);
    // crc8(t1) == bits(h, 8)
    let c1 = crc8(t1);
    assert(c1 == crc8_bits(h, 8));
    lemma_bits_linear_inj(h, 0, 8);
    if i + 1 < e.len() {
        let l = e[i + 1];
        let t2 = e.subrange(0, i + 2);
        assert(t2.drop_last() =~= t1);
        assert(t2.last() == l);
        // crc8(t2) == bits(c1 ^ l, 8) ; non-zero iff c1 != l
        lemma_bits_linear_inj(c1 ^ l, 0, 8);
        assert((c1 ^ l == 0u8) <==> (c1 == l)) by(bit_vector);
        if s == 0 {
            // single byte burst: l == 0, h == x >> 0 != 0
            assert(x >> 0u8 == x) by(bit_vector);
            assert(h != 0);
            assert(c1 != 0);
        } else {
            if x == 0 {
                assert(0u8 >> s == 0u8) by(bit_vector);
                let t = (8 - s) as u8; assert(0u8 << t == 0u8) by(bit_vector);
                assert(false);
            }
            lemma_burst_two_bytes(x, s);
        }
        assert(crc8(t2) != 0);
        assert(e.subrange(0, i + 2) =~= t2);
        lemma_crc8_zero_tail(e, i + 2);
    } else {
        assert(h != 0);
        assert(t1 =~= e);
    }
}
/// C02: no corruption of a valid packet confined to eight consecutive bits passes the PEC test
pub proof fn lemma_burst_detected(p: Seq<u8>, e: Seq<u8>, i: int, s: u8, x: u8)
    requires p.len() >= 1, e.len() == p.len(), pec_ok(p), is_burst(e, i, s, x)
    ensures !pec_ok(xor_seq(p, e))
{
    lemma_pec_ok_iff_crc_zero(p);
    lemma_crc8_linear(p, e);
    lemma_burst_crc_nonzero(e, i, s, x);
    let c = crc8(e);
    assert(0u8 ^ c == c) by(bit_vector);
    lemma_pec_ok_iff_crc_zero(xor_seq(p, e));
}

// ------------------------------------------------------------------------------- packet_spec facts (C01, C03, C04)
/// C03: every packet_spec ends with the PEC of what precedes it, and its CRC is zero
pub proof fn lemma_packet_spec_pec(dst: u8, me: u8, mt: u8, body: Seq<u8>)
    ensures pec_ok(packet_spec(dst, me, mt, body)), crc8(packet_spec(dst, me, mt, body)) == 0
{
    let pre = packet_pre(dst, me, mt, body);
    let p = packet_spec(dst, me, mt, body);
    assert(p.subrange(0, p.len() - 1) =~= pre);
    lemma_crc_append_self(pre);
}
/// C04: the length probe applied to any prefix of at least three bytes reports the packet's length
pub proof fn lemma_packet_spec_probe(dst: u8, me: u8, mt: u8, body: Seq<u8>)
    requires body.len() <= max_body()
    ensures
        probe_ok(packet_spec(dst, me, mt, body)[1]),
        probe_len(packet_spec(dst, me, mt, body)[2]) == packet_spec(dst, me, mt, body).len(),
        packet_spec(dst, me, mt, body)[2] as int + 4 == 10 + body.len(),
{
    lemma_packet_spec_index(dst, me, mt, body);
}
/// C01 (non-control): what the reference decoder makes of a vendor / SPDM / secured packet_spec
pub proof fn lemma_roundtrip_plain(dst: u8, me: u8, mt: u8, body: Seq<u8>)
    requires mt == 0x05 || mt == 0x06 || mt == 0x7e || mt == 0x7f
    ensures ({
        let p = packet_spec(dst, me, mt, body);
        &&& decode_accepts(p)
        &&& c09_claimed(p)
        &&& p[8] & 0x7f == mt
        &&& payload_start(p) == 9
        &&& p.subrange(9, p.len() - 1) =~= body
    })
{
    let p = packet_spec(dst, me, mt, body);
    lemma_packet_spec_index(dst, me, mt, body);
    lemma_packet_spec_pec(dst, me, mt, body);
    assert(mt & 0x80 == 0 && mt & 0x7f == mt && mt & 0x7f != 0) by(bit_vector)
        requires mt == 0x05 || mt == 0x06 || mt == 0x7e || mt == 0x7f;
    assert forall|j: int| 0 <= j < body.len() implies p.subrange(9, p.len() - 1)[j] == body[j] by {
        assert(p[9 + j] == body[j]);
    }
}
/// C01 (control request): body = control header (request bit set) + parameters
pub proof fn lemma_roundtrip_request(dst: u8, me: u8, iid: u8, cmd: u8, params: Seq<u8>)
    requires req_len(cmd) > 0 ==> params.len() == req_len(cmd)
    ensures ({
        let p = packet_spec(dst, me, 0u8, ctrl_hdr_spec(true, false, iid, cmd) + params);
        &&& decode_accepts(p)
        &&& c09_claimed(p)
        &&& p[8] & 0x7f == 0
        &&& payload_start(p) == 11
        &&& p.subrange(11, p.len() - 1) =~= params
        &&& is_ctrl_request(p) && (is_answerable(p) <==> cmd_answered(cmd))
        &&& p[9] & 0x1f == iid & 0x1f && p[10] == cmd && p[6] == me && p[5] == dst
    })
{
    let body = ctrl_hdr_spec(true, false, iid, cmd) + params;
    let p = packet_spec(dst, me, 0u8, body);
    lemma_packet_spec_index(dst, me, 0u8, body);
    lemma_packet_spec_pec(dst, me, 0u8, body);
    assert(0u8 & 0x80 == 0 && 0u8 & 0x7f == 0) by(bit_vector);
    let h = body[0];
    assert(p[9 + 0int] == body[0] && p[9 + 1int] == body[1]);
    assert(((0x80u8 | 0u8) | (iid & 0x1f)) & 0x80 != 0) by(bit_vector);
    assert(((0x80u8 | 0u8) | (iid & 0x1f)) & 0x1f == iid & 0x1f) by(bit_vector);
    assert forall|j: int| 0 <= j < params.len() implies p.subrange(11, p.len() - 1)[j] == params[j] by {
        assert(p[9 + (2 + j)] == body[2 + j]);
    }
}
/// C01 (control response): body = control header (request bit clear) + completion code + fields
pub proof fn lemma_roundtrip_response(dst: u8, me: u8, iid: u8, cmd: u8, cc: u8, fields: Seq<u8>)
    requires cc <= 5
    ensures ({
        let p = packet_spec(dst, me, 0u8, ctrl_hdr_spec(false, false, iid, cmd) + seq![cc] + fields);
        &&& hdr_ok(p) && pec_ok(p) && is_ctrl(p) && !is_req(p[9]) && p.len() >= 13 && p[10] == cmd && p[11] == cc
        &&& (cc != 0 ==> !decode_accepts(p) && decode_err(p) == DecErr::Completion(cc))
        &&& (cc == 0 ==> (decode_accepts(p) <==> (resp_len(cmd) > 0 ==> fields.len() == resp_len(cmd))))
        &&& payload_start(p) == 12
        &&& p.subrange(12, p.len() - 1) =~= fields
        &&& !is_ctrl_request(p) && !is_answerable(p)
    })
{
    let body = ctrl_hdr_spec(false, false, iid, cmd) + seq![cc] + fields;
    let p = packet_spec(dst, me, 0u8, body);
    lemma_packet_spec_index(dst, me, 0u8, body);
    lemma_packet_spec_pec(dst, me, 0u8, body);
    assert(0u8 & 0x80 == 0 && 0u8 & 0x7f == 0) by(bit_vector);
    assert(p[9 + 0int] == body[0] && p[9 + 1int] == body[1] && p[9 + 2int] == body[2]);
    assert(((0u8 | 0u8) | (iid & 0x1f)) & 0x80 == 0) by(bit_vector);
    assert forall|j: int| 0 <= j < fields.len() implies p.subrange(12, p.len() - 1)[j] == fields[j] by {
        assert(p[9 + (3 + j)] == body[3 + j]);
    }
}


/// C01 (control response), stated over an arbitrary body whose first byte has the request bit clear
pub proof fn lemma_roundtrip_response_body(dst: u8, me: u8, body: Seq<u8>)
    requires body.len() >= 3, body[0] & 0x80 == 0, body[2] <= 5
    ensures ({
        let p = packet_spec(dst, me, 0u8, body);
        let cmd = body[1]; let cc = body[2];
        &&& hdr_ok(p) && pec_ok(p) && is_ctrl(p) && !is_req(p[9]) && p.len() >= 13 && p[10] == cmd && p[11] == cc && p[9] == body[0]
        &&& (cc != 0 ==> !decode_accepts(p) && decode_err(p) == DecErr::Completion(cc))
        &&& (cc == 0 ==> (decode_accepts(p) <==> (resp_len(cmd) > 0 ==> body.len() - 3 == resp_len(cmd))))
        &&& payload_start(p) == 12
        &&& p.subrange(12, p.len() - 1) =~= body.subrange(3, body.len() as int)
        &&& !is_ctrl_request(p) && !is_answerable(p)
        &&& p[5] == dst && p[6] == me
    })
{
    let p = packet_spec(dst, me, 0u8, body);
    lemma_packet_spec_index(dst, me, 0u8, body);
    lemma_packet_spec_pec(dst, me, 0u8, body);
    assert(0u8 & 0x80 == 0 && 0u8 & 0x7f == 0) by(bit_vector);
    assert(p[9 + 0int] == body[0] && p[9 + 1int] == body[1] && p[9 + 2int] == body[2]);
    assert forall|j: int| 0 <= j < body.len() - 3 implies p.subrange(12, p.len() - 1)[j] == body.subrange(3, body.len() as int)[j] by {
        assert(p[9 + (3 + j)] == body[3 + j]);
    }
}

// ------------------------------------------------------------------------------- C14: following selectors
/// next selector returned for selector i when n sets are configured
pub open spec fn next_selector(i: int, n: int) -> int { if i + 1 == n { 0xFF } else { i + 1 } }
/// the selector seen at step k when starting from 0 and following the returned next selectors
pub open spec fn walk(k: nat, n: int) -> int decreases k {
    if k == 0 { 0 } else { next_selector(walk((k - 1) as nat, n), n) }
}
/// C14: starting at 0 and following next selectors visits 0, 1, .., n-1 in order, each once, then gets 0xFF
pub proof fn lemma_walk(k: nat, n: int)
    requires 1 <= n <= 255, k <= n
    ensures k < n ==> walk(k, n) == k, k == n ==> walk(k, n) == 0xFF
    decreases k
{
    if k > 0 { lemma_walk((k - 1) as nat, n); }
}

// ------------------------------------------------------------------------------- C13: EID over histories
pub enum EidOp { Assign(u8), Other }
pub open spec fn eid_step(eid: u8, op: EidOp) -> u8 { match op { EidOp::Assign(v) => v, EidOp::Other => eid } }
pub open spec fn eid_after(t: Seq<EidOp>) -> u8 decreases t.len() {
    if t.len() == 0 { 0 } else { eid_step(eid_after(t.drop_last()), t.last()) }
}
/// index of the last assigning operation, or -1
pub open spec fn last_assign(t: Seq<EidOp>) -> int decreases t.len() {
    if t.len() == 0 { -1 } else { match t.last() { EidOp::Assign(_) => t.len() - 1, EidOp::Other => last_assign(t.drop_last()) } }
}
/// C13: after any finite history the EID is the value of the most recent assigning operation, and 0 before any
pub proof fn lemma_eid_history(t: Seq<EidOp>)
    ensures
        last_assign(t) == -1 ==> eid_after(t) == 0,
        last_assign(t) >= 0 ==> 0 <= last_assign(t) < t.len() && t[last_assign(t)] == EidOp::Assign(eid_after(t)),
        -1 <= last_assign(t) < t.len(),
    decreases t.len()
{
    if t.len() > 0 {
        lemma_eid_history(t.drop_last());
        match t.last() {
            EidOp::Assign(v) => {}
            EidOp::Other => {
                let j = last_assign(t.drop_last());
                if j >= 0 { assert(t.drop_last()[j] == t[j]); }
            }
        }
    }
}

} // verus!
