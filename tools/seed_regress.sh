#!/bin/bash
# re-run every seeded change against the current checks (updates seeded/<id>/meta.json); prints one line per seed
cd /verif
for d in seeded/C*/; do id=$(basename $d); prop=${id%%-*}; r=$(python3 tools/seed_eval.py /verif/seeded/$id $id $prop 2>&1 | grep -E "^detected|exit" | tr '\n' ' ' | cut -c1-260); echo "$id $r"; done
