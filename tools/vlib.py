"""Engine of /verif/check (see DESIGN.md §3)."""
import sys, os, json, hashlib, subprocess, tempfile, shutil, time, re, atexit, signal, glob, tomllib, fcntl

VERIF = os.path.dirname(os.path.dirname(os.path.abspath(__file__)))
REPO = os.environ.get("VERIF_REPO", "/repo")
TOOLCHAIN = "1.98.1-x86_64-unknown-linux-gnu"
SPLICE = os.path.join(VERIF, "tools/splice/target/release/splice")
CACHE = os.path.join(VERIF, ".cache")
NCPU = os.cpu_count() or 4
PROPS = ["C%02d" % i for i in range(1, 20)]

EXIT_OK, EXIT_VIOLATION, EXIT_TOOL = 0, 1, 2


class ToolProblem(Exception):
    pass


def log(*a):
    print(*a, file=sys.stderr, flush=True)


# --------------------------------------------------------------------------------------------
# scratch directory
# --------------------------------------------------------------------------------------------
_work = None


def workdir():
    global _work
    if _work is None:
        _work = tempfile.mkdtemp(prefix="libmctp-verif.")
        atexit.register(_cleanup)
        for s in (signal.SIGTERM, signal.SIGINT, signal.SIGHUP):
            signal.signal(s, lambda *_: sys.exit(EXIT_TOOL))
    return _work


def _cleanup():
    global _work
    if _work and os.path.isdir(_work):
        shutil.rmtree(_work, ignore_errors=True)
    _work = None


def run(cmd, cwd=None, env=None, timeout=None, check=False):
    e = dict(os.environ)
    e["CARGO_NET_OFFLINE"] = "true"
    if env:
        e.update(env)
    t0 = time.time()
    try:
        p = subprocess.run(cmd, cwd=cwd, env=e, stdout=subprocess.PIPE, stderr=subprocess.PIPE, timeout=timeout, text=True, errors="replace")
    except subprocess.TimeoutExpired as ex:
        return 124, (ex.stdout or b"").decode(errors="replace") if isinstance(ex.stdout, bytes) else (ex.stdout or ""), "TIMEOUT", time.time() - t0
    if check and p.returncode != 0:
        raise ToolProblem("command failed (%d): %s\n%s" % (p.returncode, " ".join(cmd), p.stderr[-2000:]))
    return p.returncode, p.stdout, p.stderr, time.time() - t0


# --------------------------------------------------------------------------------------------
# hashing / cache
# --------------------------------------------------------------------------------------------
def _files(root, pats=("**/*",)):
    out = []
    for pat in pats:
        for f in glob.glob(os.path.join(root, pat), recursive=True):
            if os.path.isfile(f) and "/target/" not in f and "/.git/" not in f:
                out.append(f)
    return sorted(set(out))


def inputs_hash(extra="", kani_only=False):
    h = hashlib.sha256()
    fl = _files(os.path.join(REPO, "src"))
    for f in ("Cargo.toml", "Cargo.lock"):
        p = os.path.join(REPO, f)
        if os.path.isfile(p):
            fl.append(p)
    if kani_only:
        # what a Kani harness result depends on: the repository, the harness sources and their generator
        fl += _files(os.path.join(VERIF, "kani"))
        fl += [os.path.join(VERIF, "contracts/layouts.toml"), os.path.join(VERIF, "tools/gen_layouts.py"), os.path.join(VERIF, "tools/vkani.py")]
    else:
        for d in ("spec", "contracts", "contracts_pec", "kani"):
            fl += _files(os.path.join(VERIF, d))
        fl += _files(os.path.join(VERIF, "tools"), ("*.py", "splice/src/*.rs", "splice/Cargo.toml"))
    for f in fl:
        h.update(f.encode())
        h.update(b"\0")
        with open(f, "rb") as fh:
            h.update(fh.read())
        h.update(b"\0")
    h.update(extra.encode())
    return h.hexdigest()[:24]


def cache_get(key):
    if os.environ.get("VERIF_NO_CACHE"):
        return None
    p = os.path.join(CACHE, key + ".json")
    try:
        with open(p) as fh:
            return json.load(fh)
    except Exception:
        return None


def cache_put(key, val):
    os.makedirs(CACHE, exist_ok=True)
    p = os.path.join(CACHE, key + ".json")
    tmp = p + ".%d.tmp" % os.getpid()
    with open(tmp, "w") as fh:
        json.dump(val, fh)
    os.replace(tmp, p)
    # keep the cache small
    ents = sorted(glob.glob(os.path.join(CACHE, "*.json")), key=os.path.getmtime)
    for old in ents[:-600]:
        try:
            os.remove(old)
        except OSError:
            pass


# --------------------------------------------------------------------------------------------
# dependency rlibs + expanded pec (R4)
# --------------------------------------------------------------------------------------------
def registry_src(name, version):
    c = glob.glob(os.path.expanduser("~/.cargo/registry/src/*/%s-%s" % (name, version)))
    if not c:
        raise ToolProblem("dependency source %s-%s not in the local cargo registry" % (name, version))
    return c[0]


def locked_versions():
    lock = tomllib.load(open(os.path.join(REPO, "Cargo.lock"), "rb"))
    return {p["name"]: p["version"] for p in lock.get("package", [])}


def build_deps(work):
    deps = os.path.join(work, "deps")
    os.makedirs(deps, exist_ok=True)
    cargo = tomllib.load(open(os.path.join(REPO, "Cargo.toml"), "rb"))
    d = cargo.get("dependencies", {})
    sp = d.get("smbus-pec")
    if isinstance(sp, dict) and ("lookup-table" in sp.get("features", [])):
        raise ToolProblem("smbus-pec is built with the lookup-table feature; R4 covers the bitwise implementation only")
    v = locked_versions()
    env = {"RUSTUP_TOOLCHAIN": TOOLCHAIN}
    bf = registry_src("bitfield", v["bitfield"])
    ecm = registry_src("embedded-crc-macros", v["embedded-crc-macros"])
    pec = registry_src("smbus-pec", v["smbus-pec"])
    run(["rustc", "--edition", "2018", "--crate-type", "rlib", "--crate-name", "bitfield", os.path.join(bf, "src/lib.rs"), "-O", "--out-dir", deps, "--cap-lints", "allow"], env=env, check=True)
    run(["rustc", "--edition", "2018", "--crate-type", "rlib", "--crate-name", "embedded_crc_macros", os.path.join(ecm, "src/lib.rs"), "--out-dir", deps, "--cap-lints", "allow"], env=env, check=True)
    run(["rustc", "--edition", "2018", "--crate-type", "rlib", "--crate-name", "smbus_pec", os.path.join(pec, "src/lib.rs"), "--extern", "embedded_crc_macros=" + os.path.join(deps, "libembedded_crc_macros.rlib"), "--out-dir", deps, "--cap-lints", "allow"], env=env, check=True)
    # R4: the text of `pec` as the compiler sees it
    env2 = dict(env)
    env2["RUSTC_BOOTSTRAP"] = "1"
    rc, out, err, _ = run(["rustc", "--edition", "2018", "-Zunpretty=expanded", "--crate-name", "smbus_pec", os.path.join(pec, "src/lib.rs"), "--extern", "embedded_crc_macros=" + os.path.join(deps, "libembedded_crc_macros.rlib")], env=env2)
    if rc != 0:
        raise ToolProblem("macro expansion of smbus-pec failed: " + err[-500:])
    i = out.find("pub fn pec(data: &[u8]) -> u8 {")
    if i < 0:
        raise ToolProblem("R4: `pub fn pec(data: &[u8]) -> u8` not found in the expansion of smbus-pec " + v["smbus-pec"])
    depth, j = 0, i
    while j < len(out):
        if out[j] == "{":
            depth += 1
        elif out[j] == "}":
            depth -= 1
            if depth == 0:
                break
        j += 1
    text = out[i:j + 1]
    r4 = 0
    for old, new in (("crc ^= byte;", "crc ^= *byte;"), ("for _ in 0..8", "for k in 0..8")):
        if text.count(old) != 1:
            raise ToolProblem("R4: expected exactly one %r in the expanded pec" % old)
        text = text.replace(old, new)
        r4 += 1
    pdir = os.path.join(work, "pecsrc")
    os.makedirs(pdir, exist_ok=True)
    with open(os.path.join(pdir, "verif_pec.rs"), "w") as fh:
        fh.write("//! GENERATED (R4): `pec` of smbus-pec %s after macro expansion, two token rewrites\n\n%s\n" % (v["smbus-pec"], text))
    return deps, pdir, {"R4_pec_rewrites": r4, "smbus_pec_version": v["smbus-pec"], "bitfield_version": v["bitfield"]}


# --------------------------------------------------------------------------------------------
# splice + verus
# --------------------------------------------------------------------------------------------
def splice_and_verify(canary=False):
    """returns dict(result) — cached by input hash"""
    key = "verus-" + inputs_hash("canary" if canary else "plain")
    c = cache_get(key)
    if c is not None:
        c["cached"] = True
        return c
    work = workdir()
    t0 = time.time()
    deps, pdir, depinfo = build_deps(work)
    sc = os.path.join(work, "canary" if canary else "unit")
    shutil.rmtree(sc, ignore_errors=True)
    src, meta, meta2, gen = (os.path.join(sc, x) for x in ("src", "meta", "meta_pec", "gen"))
    for d in (src, meta, meta2, gen):
        os.makedirs(d)
    run([sys.executable, os.path.join(VERIF, "tools/gen_layouts.py"), os.path.join(VERIF, "contracts/layouts.toml"), gen, os.path.join(gen, "kani_acc")], check=True)
    spec_dir = os.path.join(VERIF, "spec")
    if canary:
        # vacuity canary for the compositions: every compose_* function gets a final `assert(false)` which must fail
        spec_dir = os.path.join(sc, "spec_canary")
        shutil.copytree(os.path.join(VERIF, "spec"), spec_dir)
        idx = index_spec_fns(spec_dir)
        for f in sorted(glob.glob(os.path.join(spec_dir, "*.rs"))):
            lines = open(f).read().split("\n")
            rng = sorted([(fi["out_start"], fi["out_end"]) for fi in idx if fi["file"] == os.path.basename(f) and fi["fn"].split("::")[1].startswith("compose_")], reverse=True)
            for st, e in rng:
                k = e
                while k > st and lines[k - 1] != "}":   # the function's closing brace is a "}" in column 0
                    k -= 1
                if k > st:
                    lines[k - 1] = "    assert(false); /*CANARY*/ }"
            open(f, "w").write("\n".join(lines))
    # Lenient anchoring (DESIGN.md §6): a proof hint or a whole contract that no longer fits the function it is anchored
    # in is LEFT OUT (never adapted) and the function is listed in res["unapplied"]; decide() treats what depends on it
    # as undecided.  A contract text that does not compile against a changed function is dropped the same way, one
    # function per retry: first its hints, then the contract.
    drop_h, drop_c = [], []
    spec_src = spec_dir
    for attempt in range(10):
        if attempt:
            for d in (src, meta, meta2):
                shutil.rmtree(d, ignore_errors=True)
                os.makedirs(d)
        cmd = [SPLICE, "--src", os.path.join(REPO, "src"), "--out", src, "--meta", meta, "--vc", os.path.join(VERIF, "contracts"), "--vc", gen,
               "--spec", spec_src, "--extra-mod", "verif_pec"]
        for f in drop_h:
            cmd += ["--drop-hints", f]
        for f in drop_c:
            cmd += ["--drop-contract", f]
        if canary:
            cmd.append("--canary")
        rc, out, err, _ = run(cmd)
        if rc != 0:
            raise ToolProblem("splice: " + (err.strip().splitlines() or ["failed"])[-1])
        cmd = [SPLICE, "--src", pdir, "--out", src, "--meta", meta2, "--vc", os.path.join(VERIF, "contracts_pec")]
        if canary:
            cmd.append("--canary")
        rc, out, err, _ = run(cmd)
        if rc != 0:
            raise ToolProblem("splice(pec): " + (err.strip().splitlines() or ["failed"])[-1])
        linemap = json.load(open(os.path.join(meta, "linemap.json")))
        linemap.update(json.load(open(os.path.join(meta2, "linemap.json"))))
        fnindex = json.load(open(os.path.join(meta, "fnindex.json"))) + json.load(open(os.path.join(meta2, "fnindex.json")))
        fnindex += index_spec_fns(os.path.join(VERIF, "spec"))
        report = json.load(open(os.path.join(meta, "report.json")))
        report2 = json.load(open(os.path.join(meta2, "report.json")))
        report["contracts"] += report2["contracts"]
        report["unapplied"] = report.get("unapplied", []) + report2.get("unapplied", [])
        report.update(depinfo)
        t_splice = time.time() - t0
        vcmd = ["verus", "src/lib.rs", "--crate-type", "lib", "--edition", "2024", "--triggers-mode", "silent",
                "--extern", "bitfield=" + os.path.join(deps, "libbitfield.rlib"), "--extern", "smbus_pec=" + os.path.join(deps, "libsmbus_pec.rlib"),
                "-L", deps, "--multiple-errors", "30", "--num-threads", str(min(NCPU, 16)), "--error-format=json", "--output-json", "--time-expanded"]
        rc, out, err, dt = run(vcmd, cwd=sc, env={"RUSTUP_TOOLCHAIN": TOOLCHAIN}, timeout=1500)
        res = parse_verus(rc, out, err, linemap, fnindex, sc)
        nxt = None
        for ce in res["compile_errors"]:
            for sp in ce["spans"]:
                o = sp[2] if len(sp) > 2 and isinstance(sp[2], dict) else {}
                if o.get("o") == "vc" and o.get("fn") and not str(o.get("fn")).startswith("verif_"):
                    f = o["fn"]
                    if o.get("kind") in ("hint", "invariant") and f not in drop_h and f not in drop_c:
                        nxt = ("h", f)
                    elif f not in drop_c:
                        nxt = ("c", f)
                    if nxt:
                        break
            if nxt:
                break
        if not nxt:
            break
        (drop_h if nxt[0] == "h" else drop_c).append(nxt[1])
    res.update({"report": report, "fnindex": fnindex, "t_splice": round(t_splice, 2), "t_verus": round(dt, 2),
                "verus_cmd": " ".join(vcmd).replace(work, "<scratch>"), "cached": False, "canary": canary,
                "unapplied": report.get("unapplied", [])})
    # scan for assumptions in the generated unit
    res["assumption_scan"] = scan_assumptions(src)
    if not res.get("tool_error"):
        cache_put(key, res)
    return res


def index_spec_fns(spec_dir):
    """function line ranges of the spec-library modules (copied verbatim, so output line == source line)"""
    out = []
    pat = re.compile(r"^\s*(?:pub\s+)?(?:(?:open|closed|uninterp|broadcast)\s+)*(?:(?:proof|spec|exec)\s+)?(?:axiom\s+)?fn\s+(\w+)")
    for f in sorted(glob.glob(os.path.join(spec_dir, "*.rs"))):
        mod = os.path.splitext(os.path.basename(f))[0]
        lines = open(f).read().split("\n")
        starts = []
        for i, l in enumerate(lines, 1):
            m = pat.match(l)
            if m:
                starts.append((i, m.group(1)))
        for k, (ln, name) in enumerate(starts):
            end = (starts[k + 1][0] - 1) if k + 1 < len(starts) else len(lines)
            # attribute doc comments above the next fn to that fn, not this one
            while end > ln and lines[end - 1].strip().startswith(("///", "//", "#[")) or (end > ln and lines[end - 1].strip() == ""):
                end -= 1
            out.append({"fn": "%s::%s" % (mod, name), "file": os.path.basename(f), "out_start": ln, "out_end": end, "repo_start": ln, "repo_end": end,
                        "has_body": True, "loops": 0, "contracted": False, "spec_lib": True})
    return out


ASSUME_PAT = re.compile(r"\b(assume\s*\(|admit\s*\(|external_body|assume_specification|axiom\s+fn|#\[verifier::external\]|external_type_specification|uninterp\s+spec)")


def scan_assumptions(src):
    out = {}
    for f in sorted(glob.glob(os.path.join(src, "*.rs"))):
        for i, l in enumerate(open(f), 1):
            if l.lstrip().startswith("//"):
                continue
            for m in ASSUME_PAT.finditer(l):
                k = re.sub(r"\W+$", "", m.group(1)).strip()
                out.setdefault(k, 0)
                out[k] += 1
    return out


def _resolve_span(sp):
    """follow macro expansions to the innermost span that lies in the scratch crate"""
    cur = sp
    macro = None
    while cur is not None:
        fn = cur.get("file_name", "")
        if fn.startswith("src/"):
            return fn[4:], cur["line_start"], cur["line_end"], macro
        ex = cur.get("expansion")
        if not ex:
            break
        macro = macro or ex.get("macro_decl_name")
        cur = ex.get("span")
    return None


def parse_verus(rc, out, err, linemap, fnindex, sc):
    res = {"rc": rc, "failed": [], "tool_error": None, "rlimit": [], "compile_errors": []}
    try:
        oj = json.loads(out) if out.strip().startswith("{") else {}
    except Exception:
        oj = {}
    vr = oj.get("verification-results", {})
    res["verified"] = vr.get("verified")
    res["errors"] = vr.get("errors")
    res["vir_error"] = vr.get("encountered-vir-error")
    times = oj.get("times-ms", {})
    res["time_total_ms"] = times.get("total")
    res["smt_run_ms"] = (times.get("smt") or {}).get("smt-run")
    funcs = {}
    for m in (times.get("smt") or {}).get("smt-run-module-times", []):
        for f in m.get("function-breakdown", []):
            funcs[f["function"]] = {"ms": f.get("time"), "rlimit": f.get("rlimit"), "ok": f.get("success"), "mode": f.get("mode:") or f.get("mode")}
    res["functions"] = funcs
    res["verus_version"] = (oj.get("verus") or {}).get("version")

    def fn_at(file, line):
        best = None
        for f in fnindex:
            if f["file"] == file and f["out_start"] <= line <= f["out_end"]:
                if best is None or (f["out_end"] - f["out_start"]) < (best["out_end"] - best["out_start"]):
                    best = f
        return best["fn"] if best else None

    def origin(file, line):
        lm = linemap.get(file)
        if lm and 1 <= line <= len(lm):
            return lm[line - 1]
        return {"o": "unknown"}

    if "panicked at" in err and "verification results" not in out:
        res["tool_error"] = "verus internal panic: " + (re.findall(r"panicked at [^\n]*\n[^\n]*", err) or ["?"])[0][:300]
    for line in err.splitlines():
        line = line.strip()
        if not line.startswith("{"):
            continue
        try:
            d = json.loads(line)
        except Exception:
            continue
        if d.get("level") != "error":
            continue
        msg = d.get("message", "")
        if msg.startswith("aborting due to"):
            continue
        spans = []
        for sp in d.get("spans", []):
            r = _resolve_span(sp)
            if r:
                spans.append({"file": r[0], "line": r[1], "end": r[2], "macro": r[3], "primary": sp.get("is_primary"), "label": sp.get("label"), "origin": origin(r[0], r[1]),
                              "text": (sp.get("text") or [{}])[0].get("text", "").strip() if not r[3] else ""})
        if d.get("code") or not spans:
            # a rustc error (E0xxx) or an error without location: the contract text no longer fits the code
            res["compile_errors"].append({"message": msg, "code": (d.get("code") or {}).get("code"), "spans": [(s["file"], s["line"], s["origin"]) for s in spans]})
            continue
        prim = next((s for s in spans if s["primary"]), spans[0])
        func = None
        for s in spans:
            # the function in which the obligation arises: prefer spans of repo origin / hints inside a fn body
            f = fn_at(s["file"], s["line"])
            if f and not (s["origin"].get("o") == "vc" and s["origin"].get("kind") in ("requires",) and not s["primary"]):
                if s["origin"].get("o") == "vc" and s["origin"].get("kind") == "ensures":
                    func = func or s["origin"].get("fn") or f
                else:
                    func = f if func is None or s["primary"] else func
        ob = {"fn": func, "message": msg, "kind": "other", "label": "", "where": None, "detail": ""}
        po = prim["origin"]
        if "rlimit" in msg or "Resource limit" in msg or "timed out" in msg.lower():
            ob["kind"] = "rlimit"
            ob["fn"] = fn_at(prim["file"], prim["line"])
            res["rlimit"].append(ob)
            continue
        if msg.startswith("postcondition not satisfied"):
            ob["kind"] = "ensures"
            cl = next((s for s in spans if s["origin"].get("o") == "vc" and s["origin"].get("kind") == "ensures"), None)
            if cl:
                ob["label"] = cl["origin"].get("label", "")
                ob["fn"] = cl["origin"].get("fn") or func
                ob["where"] = "%s:%d" % (cl["origin"].get("file"), cl["origin"].get("line", 0))
                # a clause declared on a trait method fails in the body of an impl: remember that function too
                bf = next((fn_at(s["file"], s["line"]) for s in spans if s is not cl and fn_at(s["file"], s["line"])), None)
                if bf and bf != ob["fn"]:
                    ob["body_fn"] = bf
            else:
                # a postcondition from vstd (e.g. From::from's from_spec clause) or a lemma's own ensures
                ob["label"] = "(spec)"
                s2 = next((s for s in spans if fn_at(s["file"], s["line"])), prim)
                ob["fn"] = fn_at(s2["file"], s2["line"])
                o2 = s2["origin"]
                ob["where"] = "%s:%s" % (o2.get("file"), o2.get("line"))
        elif msg.startswith("precondition not satisfied") or msg.startswith("precondition not met"):
            if prim.get("macro") and any(k in (prim.get("macro") or "") for k in ("unreachable", "unimplemented", "panic", "assert", "todo")):
                ob["kind"] = "panic"
                ob["detail"] = prim["macro"]
            else:
                ob["kind"] = "call-precondition" if msg.startswith("precondition not satisfied") else "index"
                cl = next((s for s in spans if not s["primary"] and s["origin"].get("o") == "vc" and s["origin"].get("kind") == "requires"), None)
                if cl:
                    ob["detail"] = "%s#requires:%s" % (cl["origin"].get("fn"), cl["origin"].get("label"))
            ob["fn"] = fn_at(prim["file"], prim["line"])
            ob["where"] = "%s:%s" % (po.get("file"), po.get("line"))
        else:
            if "overflow" in msg:
                ob["kind"] = "overflow"
            elif "assertion" in msg:
                ob["kind"] = "assert"
            elif "invariant" in msg:
                ob["kind"] = "invariant"
            ob["fn"] = fn_at(prim["file"], prim["line"])
            ob["where"] = "%s:%s" % (po.get("file"), po.get("line"))
        ob["src_text"] = prim.get("text", "")
        ob["origin"] = po.get("o")
        ob["po"] = po
        res["failed"].append(ob)
    if res["verified"] is None and res["failed"]:
        # verification did not run (front-end / VIR error): these are not proof obligations
        for ob in res["failed"]:
            res["compile_errors"].append({"message": ob["message"], "code": None, "spans": [(ob.get("where"), 0, ob.get("po") or {})]})
        res["failed"] = []
    if res["verified"] is None and not res["failed"] and not res["compile_errors"] and not res["tool_error"]:
        res["tool_error"] = "verus produced no result (rc=%s): %s" % (rc, err[-400:])
    return res


# --------------------------------------------------------------------------------------------
# cones, findings
# --------------------------------------------------------------------------------------------
def load_cones():
    raw = tomllib.load(open(os.path.join(VERIF, "contracts/cones.toml"), "rb"))
    groups = raw.get("groups", {})

    def expand(lst):
        out = []
        for x in lst:
            if x.startswith("@"):
                if x[1:] not in groups:
                    raise ToolProblem("cones.toml: unknown group " + x)
                out += expand(groups[x[1:]])
            else:
                out.append(x)
        return out
    cones = {}
    for k, v in raw.items():
        if k == "groups":
            continue
        if k == "second_backend":
            cones[k] = dict(v)
            continue
        cones[k] = {kk: (expand(vv) if isinstance(vv, list) else vv) for kk, vv in v.items()}
    return cones


def load_findings():
    return json.load(open(os.path.join(VERIF, "known_findings.json")))


def current_structure(fnindex):
    """{module: {function key: number of loops}} of the repository modules (not the spec library)"""
    st = {}
    for fi in fnindex:
        if fi.get("spec_lib") or fi["fn"].startswith("verif_pec::"):
            continue
        mod = fi["fn"].split("::")[0]
        st.setdefault(mod, {})[fi["fn"]] = fi.get("loops", 0)
    return st


def drifted_modules(fnindex):
    """modules whose set of functions / loops differs from the one the contracts were written for (contracts/structure.json)"""
    try:
        base = json.load(open(os.path.join(VERIF, "contracts/structure.json")))
    except Exception:
        return set()
    cur = current_structure(fnindex)
    return set(m for m in set(base) | set(cur) if base.get(m) != cur.get(m))


def norm_fn(verus_name):
    """lib::smbus::MCTPSMBusContext::decode_packet -> smbus::MCTPSMBusContext::decode_packet"""
    n = verus_name
    if n.startswith("lib::"):
        n = n[5:]
    return n


def my_fn_norm(key):
    """smbus_proto::<MCTPSMBusPacket as MCTPHeader>::to_raw_bytes -> smbus_proto::MCTPSMBusPacket::to_raw_bytes"""
    return re.sub(r"<(\w+) as \w+>", r"\1", key)


def in_cone(cone, pid, ob):
    fn = ob.get("fn") or ""
    label = ob.get("label") or ""
    fns = cone.get("functions", [])
    if ob["kind"] == "ensures" and label and label not in ("(spec)", "CANARY"):
        if label.startswith(pid + "."):
            return True
        for l in cone.get("labels", []):
            if l.endswith("*") and label.startswith(l[:-1]):
                return True
            if l == label:
                return True
        return False if not _fn_listed(fn, fns) else True
    if _fn_listed(fn, fns) or _fn_listed(fn, cone.get("lemmas", [])):
        return True
    return False


def _fn_listed(fn, lst):
    if not fn:
        return False
    for f in lst:
        if f == fn or my_fn_norm(f) == my_fn_norm(fn):
            return True
        if f.endswith("*") and fn.startswith(f[:-1]):
            return True
    return False


# --------------------------------------------------------------------------------------------
# native replay crate
# --------------------------------------------------------------------------------------------
def build_replay():
    tgt = os.path.join(VERIF, ".work", "replay-target")
    os.makedirs(tgt, exist_ok=True)
    lock = open(os.path.join(VERIF, ".work", "replay.lock"), "w")
    fcntl.flock(lock, fcntl.LOCK_EX)
    try:
        rc, out, err, dt = run(["cargo", "build", "--offline", "--quiet"], cwd=os.path.join(VERIF, "replay"), env={"CARGO_TARGET_DIR": tgt}, timeout=900)
    finally:
        fcntl.flock(lock, fcntl.LOCK_UN)
    if rc != 0:
        return None, err[-1500:]
    return os.path.join(tgt, "debug", "replay"), None


def run_witnesses(binp, names):
    out = {}
    if not names:
        return out
    rc, so, se, dt = run([binp, "witness"] + list(names), timeout=300)
    for l in so.splitlines():
        m = re.match(r"WITNESS (\S+) (\S+) ?(.*)", l)
        if m:
            out[m.group(1)] = (m.group(2), m.group(3))
    return out


# --------------------------------------------------------------------------------------------
# property verdict
# --------------------------------------------------------------------------------------------
ASSUMPTIONS = [
    "Soundness of Verus 0.2026.09.13 + Z3 (and of Kani 0.68 + CBMC + CaDiCaL for the K.* harnesses) and of rustc's front end.",
    "vstd's specifications of the core items used: slice/array indexing and range indexing, copy_from_slice, Option/Result, From/Into blanket impl, slice iterators (IteratorSpec), integer casts.",
    "std::cell::Cell::{new,get,set,replace} terminate without panicking; they carry NO functional postcondition in the Verus unit (what a read returns comes from Kani on the compiled crate); Cell writes are governed by the uninterpreted write-policy predicate cell_write_ok (DESIGN.md §3.5a): a write is an obligation of the writing function.",
    "as_bytes([u8;N]) == the array (AsRef/AsMut<[u8]> for [u8;N] is the identity view), N in {1,2,4}: three broadcast axioms.",
    "Bit-field accessor contracts are assumed in the Verus unit (assume_specification) and proved by Kani on the real macro-generated code (K.acc.*); both texts are generated from contracts/layouts.toml.",
    "smbus_pec::pec is assumed to satisfy r == crc8(data) at call sites and that exact clause is proved on the macro expansion (rustc -Zunpretty=expanded) of the locked smbus-pec version with two token rewrites (R4); that the expansion is what cargo links is trusted.",
    "Rewrites R1-R4 preserve behaviour (DESIGN.md §3.2): verus!{} wrapping / no_std dropped, visibility widening, enumerate unfolding (3 loops), pec `*byte`/loop variable name; #[cfg(test)] items and statements dropped.",
    "Machine arithmetic: every usize/u8 overflow, cast and index is an obligation in Verus (nothing is treated as mathematical); slice lengths are bounded by explicit `arith` preconditions (<= 0x7fff_0000 bytes).",
    "Three encoders that end in an unconditional unimplemented!() (request_tx_rate_limit, update_rate_limmit, query_supported_interfaces) are marked external: outside every property.",
    "Termination: exec functions have only `for` loops over slices/ranges (Verus checks decreases for spec/proof fns; Kani does not check termination).",
    "No unsafe code in libmctp, bitfield 0.14 accessors used here, or smbus-pec (which forbids it).",
    "One obligation of the unit is expected to fail and is outside every listed property (known_findings.json L1): the unreachable!() inside `impl From<u8> for CompletionCode` for a byte above 0x05 (a trait impl cannot carry a precondition). The receive path never calls it with such a byte: the two call sites in get_mctp_control_packet carry the obligation `packet[2] <= 5`.",
]


def decide(pid, tier, seed):
    t0 = time.time()
    cones = load_cones()
    cone = cones.get(pid)
    if cone is None:
        raise ToolProblem("no cone for " + pid)
    findings = load_findings()
    res = splice_and_verify(canary=False)
    notes = []
    if res.get("tool_error"):
        raise ToolProblem(res["tool_error"])
    if res["compile_errors"]:
        ce = res["compile_errors"][0]
        raise ToolProblem("the contract text no longer compiles against the code (structure changed; contracts need re-anchoring): %s %s" % (ce["message"][:200], ce["spans"][:1]))
    if res["rlimit"]:
        mine = [r for r in res["rlimit"] if in_cone(cone, pid, dict(r, kind="rlimit"))]
        if mine:
            raise ToolProblem("resource limit exceeded in %s (undecided)" % ", ".join(sorted(set(r["fn"] or "?" for r in mine))))

    # ---- obligations of this property
    contracts = {c["fn"]: c for c in res["report"]["contracts"]}
    cone_fns = set()
    clause_list = []
    for c in res["report"]["contracts"]:
        listed = _fn_listed(c["fn"], cone.get("functions", []))
        mine = [l for l in c["ensures"] if l.startswith(pid + ".") or listed or any((x.endswith("*") and l.startswith(x[:-1])) or x == l for x in cone.get("labels", []))]
        if mine or listed:
            cone_fns.add(c["fn"])
            clause_list += ["%s#%s" % (c["fn"], l) for l in mine]
    lemma_fns = list(cone.get("lemmas", []))
    funcs = res.get("functions", {})
    fn_times = {}
    for vn, info in funcs.items():
        n = norm_fn(vn)
        for cf in list(cone_fns) + lemma_fns:
            if my_fn_norm(cf) == n or (cf.endswith("*") and n.startswith(cf[:-1])):
                fn_times[n] = info
    has_body = {fi["fn"]: fi.get("has_body") for fi in res["fnindex"]}
    missing = [cf for cf in cone_fns if has_body.get(cf) and not any(my_fn_norm(cf) == norm_fn(v) for v in funcs) and contracts.get(cf, {}).get("attrs") == []]
    failed = [ob for ob in res["failed"] if in_cone(cone, pid, ob)]

    # ---- expected-failing obligations (mechanism B) and witnesses of recorded findings
    violations = []
    known_lines = []
    exp = [f for f in findings["findings"] if f.get("expected_failing") and f["status"] == "recorded"]
    remaining = []
    for ob in failed:
        hit = None
        for f in exp:
            e = f["expected_failing"]
            if my_fn_norm(e["fn"]) == my_fn_norm(ob.get("fn") or "") and e["kind"] == ob["kind"] and e.get("detail", "") in (ob.get("detail") or ""):
                hit = f
        if hit:
            if pid in hit["properties"]:
                notes.append("expected-failing obligation %s (%s): finding %s" % (ob["fn"], ob["detail"], hit["id"]))
        else:
            remaining.append(ob)
    failed = remaining

    binp, berr = build_replay()
    if binp is None:
        raise ToolProblem("replay crate does not build against the current tree: " + (berr or "")[-300:])
    my_find = [f for f in findings["findings"] if pid in f["properties"]]
    wnames = [w for f in my_find for w in f.get("witnesses", [])]
    wres = run_witnesses(binp, wnames)
    replay_dir = os.path.join(VERIF, "evidence", "replay")
    os.makedirs(replay_dir, exist_ok=True)
    for f in my_find:
        for w in f.get("witnesses", []):
            verdict, detail = wres.get(w, ("missing", ""))
            if f["status"] == "recorded":
                if verdict == "reproduces":
                    known_lines.append("KNOWN-FINDING: property=%s %s [%s] %s" % (pid, f["id"], w, f["what"]))
                elif verdict == "fixed":
                    notes.append("finding %s witness %s no longer reproduces (repaired?)" % (f["id"], w))
                else:
                    violations.append({"kind": "witness", "finding": f["id"], "witness": w, "verdict": verdict, "detail": detail,
                                       "why": "the recorded finding's witness behaves differently from both the recorded defect and the specified behaviour"})
            elif f["status"] == "fixed":
                if verdict != "fixed":
                    violations.append({"kind": "witness", "finding": f["id"], "witness": w, "verdict": verdict, "detail": detail,
                                       "why": "a defect repaired by commit %s is back" % f.get("commit", "?")})

    # ---- Kani contract harnesses in the cone
    kres = None
    kpats = cone.get("kani_quick", []) if tier == "quick" else cone.get("kani_quick", []) + cone.get("kani_thorough", [])
    if kpats:
        import vkani
        kres = vkani.run_harnesses(kpats, tier)
        if kres.get("tool_error"):
            raise ToolProblem("kani: " + kres["tool_error"])
        for h, r in kres["harnesses"].items():
            if r["status"] == "FAILED":
                violations.append({"kind": "kani", "harness": h, "detail": r.get("detail", ""), "failed_checks": r.get("failed_checks", [])[:5], "values": r.get("values")})
            elif r["status"] != "SUCCESSFUL":
                raise ToolProblem("kani harness %s: %s" % (h, r["status"]))

    # ---- second back end (DESIGN.md §3.6a).  The loop-free header builders listed in cones.toml [second_backend] each have
    # a COMPLETE Kani contract harness stating the same labelled clause over the full argument domain.  When Verus/Z3
    # could not re-establish such a builder's obligations (typically a behaviour-preserving reordering of the setter calls
    # that the bit-vector hint no longer matches), the same query goes to Kani/CBMC: SUCCESSFUL discharges the builder's
    # obligations on that back end (recorded in the evidence), FAILED is a violation carrying Kani's counterexample.
    sb = cones.get("second_backend", {})
    sb_info = {}
    if failed and sb:
        by_fn = {}
        for ob in failed:
            by_fn.setdefault(my_fn_norm(ob.get("fn") or ""), []).append(ob)
        for fnn, obs in sorted(by_fn.items()):
            hs = [h for f2, h in sb.items() if my_fn_norm(f2) == fnn]
            if not hs:
                continue
            import vkani
            k2 = vkani.run_harnesses(hs, tier)
            if k2.get("tool_error"):
                notes.append("second back end for %s not available: %s" % (fnn, k2["tool_error"][:200]))
                continue
            r2 = k2["harnesses"].get(hs[0], {})
            sb_info[fnn] = {"harness": hs[0], "status": r2.get("status"), "time_s": r2.get("time_s"), "verus_obligations": [ob_name(o) for o in obs]}
            if r2.get("status") == "SUCCESSFUL":
                failed = [o for o in failed if o not in obs]
                notes.append("Verus could not re-establish %d obligation(s) of %s; the complete Kani harness %s (same clause, full domain) discharged them" % (len(obs), fnn, hs[0]))
            elif r2.get("status") == "FAILED":
                violations.append({"kind": "kani", "harness": hs[0], "detail": r2.get("detail", ""), "failed_checks": r2.get("failed_checks", [])[:5], "values": r2.get("values")})

    # ---- canary (vacuity) in the thorough tier
    canary_info = None
    if tier == "thorough":
        cres = splice_and_verify(canary=True)
        if cres.get("tool_error") or cres["compile_errors"]:
            raise ToolProblem("canary run failed: %s" % (cres.get("tool_error") or cres["compile_errors"][0]["message"]))
        can_failed = set(my_fn_norm(ob["fn"]) for ob in cres["failed"] if ob.get("label") == "CANARY")
        can_failed |= set(my_fn_norm(ob["fn"] or "") for ob in cres["failed"] if ob["kind"] == "assert" and ("CANARY" in (ob.get("src_text") or "") or "canary" in str(ob.get("where") or "") or ob.get("origin") == "vc"))
        can_failed |= set(my_fn_norm(r["fn"] or "") for r in cres["rlimit"])
        expect = [cf for cf in cone_fns if contracts.get(cf, {}).get("attrs") == [] and any(fi["fn"] == cf and fi["has_body"] for fi in res["fnindex"])]
        for l in lemma_fns:
            for fi in res["fnindex"]:
                if fi.get("spec_lib") and fi["fn"].split("::")[1].startswith("compose_") and _fn_listed(fi["fn"], [l]) and fi["fn"] not in expect:
                    expect.append(fi["fn"])
        vac = [cf for cf in expect if my_fn_norm(cf) not in can_failed]
        canary_info = {"functions_with_canary_assert_false": len(expect), "failed_as_required": len(expect) - len(vac), "vacuous": vac}
        if vac:
            raise ToolProblem("vacuity canary: `assert(false)` verifies in %s (contradictory precondition or inconsistent assumption)" % ", ".join(vac))

    # ---- the proof passed: independent differential cross-check on the real crate (a failing input that replays is a
    # violation even if every obligation was discharged - it would mean a contract is weaker than the property)
    cross = None
    if not failed and not violations:
        import vsearch
        cross, cex0 = vsearch.crosscheck(pid, seed, tier)
        if cex0:
            violations.append({"kind": "search", "obligation": "(all obligations discharged; differential search found a failing input)", "detail": cex0.get("detail"), "cex": cex0})
    # ---- structural-drift rule (DESIGN.md §6): in a module whose set of functions/loops changed, a failed obligation
    # means "the contracts no longer fit", not yet "the property is broken": it needs a failing input to become an alarm
    drift = drifted_modules(res["fnindex"])
    # lenient anchoring: functions whose hints/contract could not be applied.  A lost CONTRACT removes obligations, so a
    # property whose cone names that function (or one of its labelled clauses) cannot be reported as held by the proof;
    # and every caller now fails for lack of the callee's postcondition: all failures become soft.
    unapplied = res.get("unapplied") or []
    lost_fns = sorted(set(u["fn"] for u in unapplied if u["kind"] == "contract"))
    hint_fns = sorted(set(u["fn"] for u in unapplied if u["kind"] != "contract"))
    lost_mine = []
    for u in unapplied:
        if u["kind"] != "contract":
            continue
        labels = u.get("ensures", [])
        if _fn_listed(u["fn"], cone.get("functions", [])) or any(l.startswith(pid + ".") or any((x.endswith("*") and l.startswith(x[:-1])) or x == l for x in cone.get("labels", [])) for l in labels):
            lost_mine.append(u["fn"])
    for u in unapplied:
        notes.append("contract text not applied to %s (%s: %s)" % (u["fn"], u["kind"], u.get("why", "")))
    drift |= set(f.split("::")[0] for f in hint_fns)
    if lost_fns:
        soft = list(failed)
    else:
        soft = [ob for ob in failed if (ob.get("fn") or "").split("::")[0] in drift or (ob.get("body_fn") or "?").split("::")[0] in drift]
    hard = [ob for ob in failed if ob not in soft]
    if (soft or lost_mine) and not hard and not violations:
        import vsearch
        cex = vsearch.find_counterexample(pid, [], seed, tier)
        if not (cex and cex.get("reproduced")) and lost_mine:
            raise ToolProblem("the contract of %s can no longer be attached to the code (%s) and no failing input was found - contracts need re-anchoring"
                              % (", ".join(sorted(set(lost_mine))), "; ".join(u.get("why", "") for u in unapplied if u["fn"] in lost_mine)[:300]))
        if not (cex and cex.get("reproduced")):
            raise ToolProblem("the structure of module(s) %s changed (functions/loops differ from contracts/structure.json); %d obligation(s) could not be re-established (%s) and no failing input was found - contracts need re-anchoring"
                              % (", ".join(sorted(drift)), len(soft), "; ".join(ob_name(o) for o in soft[:3])))
        violations.append({"kind": "search", "obligation": "(structure of %s changed; failing input found)" % ", ".join(sorted(drift)), "detail": cex.get("detail"), "cex": cex})
    for ob in failed:
        violations.append({"kind": "verus", "obligation": ob_name(ob), "message": ob["message"], "where": ob.get("where"), "detail": ob.get("detail"), "src": ob.get("src_text")})
    if missing:
        raise ToolProblem("contracted functions not reported by the verifier (contract no longer attached?): " + ", ".join(missing))

    n_obl = len(fn_times) + (len(kres["harnesses"]) if kres else 0)
    n_failed_fns = len(set(my_fn_norm(ob.get("fn") or "?") for ob in failed))
    n_k_failed = len([1 for v in violations if v["kind"] == "kani"])
    discharged = max(0, n_obl - n_failed_fns - n_k_failed)
    ev = {
        "property_id": pid, "tier": tier, "seed": seed, "level": "proof",
        "coverage": {
            "obligations": n_obl, "discharged": discharged,
            "checker_cmd": res["verus_cmd"] + ((" ; " + kres["cmd"]) if kres else ""),
            "trusted_base": ["Verus %s (Z3)" % res.get("verus_version"), "rustc %s" % TOOLCHAIN] + (["Kani 0.68.0 / CBMC 6.11 / CaDiCaL"] if kres else []),
            "explanation": "obligations = per-function verification queries (Verus: one SMT query group per contracted function or lemma in the property's cone) + Kani contract harnesses; discharged = those that verified on this run",
            "functions_under_contract": sorted(cone_fns),
            "clauses": sorted(clause_list),
            "lemmas": lemma_fns,
            "samples": sorted(clause_list)[:12] + lemma_fns[:6],
            "per_function_solver_ms": {k: v.get("ms") for k, v in sorted(fn_times.items())},
            "verus": {"verified_total": res["verified"], "errors_total": res["errors"], "smt_run_ms": res.get("smt_run_ms"), "wall_s": res.get("t_verus"), "cached_result": res.get("cached", False), "backend": "Verus/Z3"},
            "kani": ({k: {"status": v["status"], "time_s": v.get("time_s")} for k, v in kres["harnesses"].items()} if kres else None),
            "kani_bounds": (kres.get("bounds") if kres else None),
            "rewrites": {k: v for k, v in res["report"].items() if k != "contracts"},
            "assumption_scan": res.get("assumption_scan"),
            "canary": canary_info,
            "second_backend": sb_info or None,
            "known_findings_replayed": {w: wres.get(w, ("missing", ""))[0] for w in wnames},
            "search_crosscheck": cross,
            "notes": notes,
            "exhaustive": False,
        },
        "assumptions": ASSUMPTIONS + cone.get("assumptions", []),
        "wall_s": round(time.time() - t0, 2),
        "violations": len(violations),
    }
    return ev, violations, known_lines


def ob_name(ob):
    s = "%s#%s" % (ob.get("fn") or "?", ob["kind"])
    if ob.get("label"):
        s += ":" + ob["label"]
    if ob.get("where"):
        s += "@" + str(ob["where"])
    return s


def write_evidence(pid, ev):
    d = os.path.join(VERIF, "evidence")
    os.makedirs(d, exist_ok=True)
    p = os.path.join(d, pid + ".json")
    tmp = p + ".tmp%d" % os.getpid()
    with open(tmp, "w") as fh:
        json.dump(ev, fh, indent=1)
    os.replace(tmp, p)


def check_property(pid, tier, seed):
    try:
        ev, violations, known = decide(pid, tier, seed)
    except ToolProblem as e:
        # The contracts could not be applied to / checked against this tree (lost anchor, contract text that no longer
        # compiles, resource limit, tool failure): the property is UNDECIDED by the proof.  Structural-drift rule
        # (DESIGN.md §6): only a failing input found by the native search and replayed on the real crate is an alarm.
        import vsearch
        cex = None
        kfail = []
        try:
            # the Kani contract harnesses of the cone do not depend on the Verus contracts: a FAILED harness is a
            # verifier counterexample on the compiled crate
            cone = load_cones().get(pid, {})
            kpats = cone.get("kani_quick", []) + (cone.get("kani_thorough", []) if tier == "thorough" else [])
            if kpats:
                import vkani
                kres = vkani.run_harnesses(kpats, tier)
                kfail = [{"kind": "kani", "harness": h, "failed_checks": r.get("failed_checks", [])[:5], "detail": r.get("detail", ""), "values": r.get("values")} for h, r in kres.get("harnesses", {}).items() if r["status"] == "FAILED"]
        except Exception as e3:
            kfail = []
        try:
            cex = vsearch.find_counterexample(pid, [], seed, tier)
        except Exception as e2:  # the search itself is best effort here
            cex = {"reproduced": False, "error": str(e2)[:200]}
        if kfail and not (cex and cex.get("reproduced")):
            rdir = os.path.join(VERIF, "evidence", "replay")
            os.makedirs(rdir, exist_ok=True)
            rp = os.path.join(rdir, "%s.json" % pid)
            with open(rp, "w") as fh:
                json.dump({"property": pid, "violations": kfail + [{"kind": "structure", "message": str(e)[:600]}], "counterexample": cex, "repo_head": git_head()}, fh, indent=1)
            ev = {"property_id": pid, "tier": tier, "seed": seed, "level": "other",
                  "coverage": {"explanation": "Verus contracts could not be applied (%s); Kani contract harnesses of the cone FAILED: %s" % (str(e)[:300], ", ".join(k["harness"] for k in kfail)),
                               "evaluations": 1, "distinct_nontrivial": 2}, "assumptions": ASSUMPTIONS, "wall_s": 0.0, "violations": len(kfail)}
            write_evidence(pid, ev)
            for k in kfail:
                print("  failed: %s - %s" % (k["harness"], "; ".join(k["failed_checks"])[:200]))
            print("VIOLATION property=%s replay=%s no-failing-input-found" % (pid, rp))
            return EXIT_VIOLATION
        ev = {"property_id": pid, "tier": tier, "seed": seed, "level": "other",
              "coverage": {"explanation": "proof undecided (tool problem): %s; native differential search against the oracle: %s" % (str(e)[:400], json.dumps(cex)[:300]),
                           "evaluations": max(1, (cex or {}).get("evaluations", 1)), "distinct_nontrivial": max(2, (cex or {}).get("evaluations", 2))},
              "assumptions": ASSUMPTIONS, "wall_s": 0.0, "violations": 1 if (cex and cex.get("reproduced")) else 0}
        write_evidence(pid, ev)
        if cex and cex.get("reproduced"):
            rdir = os.path.join(VERIF, "evidence", "replay")
            os.makedirs(rdir, exist_ok=True)
            rp = os.path.join(rdir, "%s.json" % pid)
            rec = {"property": pid, "violations": [{"kind": "structure", "obligation": "(contracts could not be applied)", "message": str(e)[:600]}],
                   "counterexample": cex, "repo_head": git_head(), "how_to_replay": "./check replay %s" % rp}
            with open(rp, "w") as fh:
                json.dump(rec, fh, indent=1)
            print("  contracts could not be applied (%s); failing input found by the native search: %s" % (str(e)[:160], (cex.get("detail") or "")[:300]))
            print("VIOLATION property=%s replay=%s" % (pid, rp))
            return EXIT_VIOLATION
        print("UNDECIDED property=%s tool problem: %s" % (pid, e))
        return EXIT_TOOL
    write_evidence(pid, ev)
    for l in known:
        print(l)
    if violations:
        import vsearch
        rdir = os.path.join(VERIF, "evidence", "replay")
        os.makedirs(rdir, exist_ok=True)
        rp = os.path.join(rdir, "%s.json" % pid)
        cex = vsearch.find_counterexample(pid, violations, seed, tier)
        rec = {"property": pid, "violations": violations, "counterexample": cex, "repo_head": git_head(), "how_to_replay": "./check replay %s" % rp}
        with open(rp, "w") as fh:
            json.dump(rec, fh, indent=1)
        for v in violations[:8]:
            print("  failed: %s" % (v.get("obligation") or v.get("harness") or v.get("witness")), "-", (v.get("message") or v.get("detail") or v.get("why") or "")[:160])
        suffix = "" if (cex and cex.get("reproduced")) else " no-failing-input-found"
        print("VIOLATION property=%s replay=%s%s" % (pid, rp, suffix))
        return EXIT_VIOLATION
    c = ev["coverage"]
    print("OK property=%s tier=%s obligations=%d discharged=%d wall=%.1fs" % (pid, tier, c["obligations"], c["discharged"], ev["wall_s"]))
    return EXIT_OK


def git_head():
    rc, out, err, _ = run(["git", "-C", REPO, "rev-parse", "--short", "HEAD"])
    return out.strip()


def main(argv):
    tier = os.environ.get("VERIF_TIER", "quick")
    seed = int(os.environ.get("VERIF_SEED", "0") or 0)
    args = []
    i = 0
    while i < len(argv):
        if argv[i] == "--tier":
            tier = argv[i + 1]
            i += 2
        else:
            args.append(argv[i])
            i += 1
    if tier not in ("quick", "thorough"):
        tier = "quick"
    if not args:
        print(__doc__)
        return EXIT_TOOL
    if args[0] == "replay":
        import vsearch
        return vsearch.replay_file(args[1])
    if args[0] == "structure":
        res = splice_and_verify()
        st = current_structure(res["fnindex"])
        if len(args) > 1 and args[1] == "--write":
            json.dump(st, open(os.path.join(VERIF, "contracts/structure.json"), "w"), indent=1, sort_keys=True)
            print("written contracts/structure.json:", sum(len(v) for v in st.values()), "functions")
        else:
            print("drifted modules:", sorted(drifted_modules(res["fnindex"])))
        return 0
    if args[0] == "obligations":
        res = splice_and_verify()
        print(json.dumps({"verified": res["verified"], "errors": res["errors"], "failed": [ob_name(o) for o in res["failed"]], "rlimit": res["rlimit"],
                          "compile_errors": res["compile_errors"], "tool_error": res["tool_error"], "t_verus": res["t_verus"], "cached": res["cached"]}, indent=1))
        return 0
    ids = PROPS if args[0] == "all" else [a for a in args]
    worst = 0
    for pid in ids:
        if pid not in PROPS:
            print("unknown property", pid)
            return EXIT_TOOL
        rc = check_property(pid, tier, seed)
        worst = max(worst, rc) if rc != EXIT_VIOLATION else max(worst, 1) if worst != 2 else 2
        if rc == EXIT_VIOLATION:
            worst = 1 if worst in (0, 1) else worst
    return worst
