def run_harnesses(pats, tier):
    return {"harnesses": {}, "cmd": "", "bounds": {}}
