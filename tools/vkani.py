"""Kani contract harnesses on the real crate (DESIGN.md §3.5).

A scratch copy of /repo (Cargo.toml, Cargo.lock, src/) gets harness modules APPENDED as child modules under
#[cfg(kani)] — the generated accessor harnesses (tools/gen_layouts.py, from contracts/layouts.toml) to the module
of each header view, kani/state_harness.rs to smbus.rs.  Each harness runs as its own `cargo kani` process
(parallel), with --no-assertion-reach-checks and a kani::cover! that must be satisfied (vacuity)."""
import os, re, json, shutil, fnmatch, time, glob
from concurrent.futures import ThreadPoolExecutor
import vlib

TIMEOUT = {"quick": 900, "thorough": 3000}
# bounded components (everything else is complete: loop-free or loops bounded by a field width / fixed array)
BOUNDS = {
    "k_step_frame": "bounded: packet length <= 24 bytes (symbolic), pec under its weakest contract, one vendor set",
    "k_step_frame_long": "bounded: packet length <= 64 bytes (symbolic), pec under its weakest contract, one vendor set",
    "k_decode_keeps_state": "bounded: packet length <= 24 bytes (symbolic), pec under its weakest contract",
    "k_sel_next_selector": "n <= 16 vendor sets (the property's own domain); request length 13 is forced by the decoder's length table (proved by Verus)",
    "k_enum_routing_update": "<= 7 entries (all that the encoder accepts): complete",
    "k_enum_msg_types": "<= 30 types (all that the encoder accepts): complete",
    "k_enum_vendor_field": "<= 7 bytes (the documented shape): complete",
    "k_encode_keeps_state": "four representative encoders, fixed-size buffers",
    "k_pec_matches_crc8": "bounded: data length <= 6 bytes (cross-check of the linked dependency; the all-lengths proof is Verus's on the expansion)",
    "k_pec_matches_crc8_long": "bounded: data length <= 16 bytes",
}


def _module_of(h, acc_index):
    if h in acc_index:
        return acc_index[h]["qualified"]
    return "smbus::verif_kani_state::" + h


def prepare(work):
    crate = os.path.join(work, "kani_crate")
    if os.path.isdir(crate):
        return crate, json.load(open(os.path.join(crate, "acc_index.json")))
    os.makedirs(crate)
    shutil.copytree(os.path.join(vlib.REPO, "src"), os.path.join(crate, "src"))
    for f in ("Cargo.toml", "Cargo.lock"):
        shutil.copy(os.path.join(vlib.REPO, f), crate)
    gen = os.path.join(crate, "gen")
    os.makedirs(gen)
    vlib.run([vlib.sys.executable, os.path.join(vlib.VERIF, "tools/gen_layouts.py"), os.path.join(vlib.VERIF, "contracts/layouts.toml"), gen, os.path.join(gen, "kani_acc")], check=True)
    acc_index = {}
    for f in sorted(glob.glob(os.path.join(gen, "kani_acc.*.rs"))):
        mod = os.path.basename(f)[len("kani_acc."):-3]
        tgt = os.path.join(crate, "src", mod + ".rs")
        if not os.path.isfile(tgt):
            raise vlib.ToolProblem("module %s.rs (layouts.toml) not found in the repository" % mod)
        with open(tgt, "a") as fh:
            fh.write("\n" + open(f).read())
    for e in json.load(open(os.path.join(gen, "kani_acc.index.json"))):
        acc_index[e["harness"]] = e
    with open(os.path.join(crate, "src", "smbus.rs"), "a") as fh:
        fh.write("\n" + open(os.path.join(vlib.VERIF, "kani/state_harness.rs")).read())
    json.dump(acc_index, open(os.path.join(crate, "acc_index.json"), "w"))
    return crate, acc_index


def all_harness_names(acc_index):
    names = list(acc_index.keys())
    txt = open(os.path.join(vlib.VERIF, "kani/state_harness.rs")).read()
    names += re.findall(r"#\[kani::proof\](?:\s*#\[[^\]]*\])*\s*fn (\w+)", txt)
    return names


def _run_one(crate, qual, timeout):
    cmd = ["cargo", "kani", "--harness", qual, "--exact", "-Z", "stubbing", "-Z", "concrete-playback", "--concrete-playback=print",
           "--no-assertion-reach-checks", "--output-format", "terse"]
    rc, out, err, dt = vlib.run(cmd, cwd=crate, timeout=timeout, env={"CARGO_TARGET_DIR": os.path.join(crate, "target")})
    txt = out + "\n" + err
    r = {"time_s": round(dt, 1), "status": "UNKNOWN", "failed_checks": [], "cmd": " ".join(cmd)}
    if rc == 124:
        r["status"] = "TIMEOUT"
        return r
    m = re.search(r"VERIFICATION:- (\w+)", txt)
    if m:
        r["status"] = m.group(1)
    elif "error" in txt:
        r["status"] = "BUILD-ERROR"
        r["detail"] = "\n".join([l for l in txt.splitlines() if l.startswith("error")][:5])
        return r
    fc = re.findall(r"Failed Checks: ([^\n]*)\n(?: File: ([^\n]*))?", txt)
    r["failed_checks"] = ["%s @ %s" % (a, b.strip()) for a, b in fc]
    cov = re.search(r"(\d+) of (\d+) cover properties satisfied", txt)
    if cov:
        r["covers"] = "%s/%s" % (cov.group(1), cov.group(2))
        if r["status"] == "SUCCESSFUL" and cov.group(1) == "0":
            r["status"] = "VACUOUS"
    if any("unwinding assertion" in x for x in r["failed_checks"]) and all("unwinding" in x for x in r["failed_checks"]):
        r["status"] = "UNWIND"  # a tool bound, not a semantic failure
    if re.search(r"out of memory|Killed|memory exhausted", txt, re.I):
        r["status"] = "OOM"
    if r["status"] == "FAILED":
        # the verifier's counterexample: Kani's concrete values for every kani::any() of the harness, in call order
        m = re.findall(r"Concrete playback unit test for `[^`]*`:\s*```\s*(.*?)```", txt, re.S)
        if m:
            r["values"] = m[-1].strip()[:4000]
        chk = re.findall(r"Check for `assertion`: \"([^\n]*)\"", txt)
        if chk:
            r["detail"] = "; ".join(chk[:3])[:500]
    vt = re.search(r"Verification Time: ([\d.]+)s", txt)
    if vt:
        r["cbmc_s"] = round(float(vt.group(1)), 2)
    return r


def run_harnesses(pats, tier):
    """pats: list of names / glob patterns.  Results cached per harness by the hash of all inputs."""
    work = vlib.workdir()
    key_base = vlib.inputs_hash("kani", kani_only=True)
    crate = None
    acc_index = None
    # harness names are needed before the crate is prepared only to consult the cache
    gen_names_key = "kaninames-" + key_base
    names = vlib.cache_get(gen_names_key)
    if names is None:
        crate, acc_index = prepare(work)
        names = {"all": all_harness_names(acc_index), "acc": acc_index}
        vlib.cache_put(gen_names_key, names)
    acc_index = names["acc"]
    sel = []
    for p in pats:
        hit = [n for n in names["all"] if fnmatch.fnmatchcase(n, p)]
        if not hit:
            return {"tool_error": "no Kani harness matches %r" % p, "harnesses": {}}
        for h in hit:
            if h not in sel:
                sel.append(h)
    results = {}
    todo = []
    for h in sel:
        c = vlib.cache_get("kani-%s-%s" % (key_base, h))
        if c is not None:
            c["cached"] = True
            results[h] = c
        else:
            todo.append(h)
    if todo:
        if crate is None:
            crate, acc_index = prepare(work)
        # build once (so the parallel runs only verify)
        first = todo[0]
        r0 = _run_one(crate, _module_of(first, acc_index), TIMEOUT[tier])
        if r0["status"] == "BUILD-ERROR":
            return {"tool_error": "the Kani harness crate does not build against the current tree: " + r0.get("detail", ""), "harnesses": {}}
        results[first] = r0
        rest = todo[1:]
        # the heavy state harnesses need several GB each: limit parallelism
        heavy = [h for h in rest if h.startswith("k_step") or h.startswith("k_sel") or h.startswith("k_decode")]
        light = [h for h in rest if h not in heavy]
        with ThreadPoolExecutor(max_workers=max(2, min(12, vlib.NCPU - 2))) as ex:
            futs = {h: ex.submit(_run_one, crate, _module_of(h, acc_index), TIMEOUT[tier]) for h in light}
            with ThreadPoolExecutor(max_workers=4) as ex2:
                futs2 = {h: ex2.submit(_run_one, crate, _module_of(h, acc_index), TIMEOUT[tier]) for h in heavy}
                for h, f in futs2.items():
                    results[h] = f.result()
            for h, f in futs.items():
                results[h] = f.result()
        for h in todo:
            if results[h]["status"] in ("SUCCESSFUL", "FAILED"):
                vlib.cache_put("kani-%s-%s" % (key_base, h), results[h])
    return {"harnesses": results, "cmd": "cargo kani --harness <h> --exact -Z stubbing --no-assertion-reach-checks (one process per harness, scratch copy of /repo + appended #[cfg(kani)] child modules)",
            "bounds": {h: BOUNDS[h] for h in sel if h in BOUNDS}}
