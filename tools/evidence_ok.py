#!/usr/bin/env python3
"""guard before committing evidence: every evidence file must come from a run on the unchanged tree (no violations,
all obligations discharged, proof level)"""
import json, glob, sys
bad = []
for f in sorted(glob.glob('/verif/evidence/C*.json')):
    d = json.load(open(f)); c = d.get('coverage', {})
    if d.get('level') != 'proof' or d.get('violations') or c.get('obligations') != c.get('discharged') or not c.get('obligations'):
        bad.append((f, d.get('level'), d.get('violations'), c.get('obligations'), c.get('discharged')))
print("evidence ok" if not bad else "STALE/MUTANT EVIDENCE: %s" % bad)
sys.exit(1 if bad else 0)
