#!/usr/bin/env python3
"""Confirm a seeded property-breaking change and run the checks against it.
usage: seed_eval.py <mutant-dir> <seed-id> <property> [more properties to run ...]
  <mutant-dir> holds patch.diff, demo.rs (integration test) and notes.md.
Steps: (1) scratch worktree of /repo: patch applies, `cargo test --offline` passes, demo fails with / passes without the
change; (2) apply to /repo, run ./check for the properties, revert; (3) store under /verif/seeded/<seed-id>/."""
import sys, os, subprocess, json, shutil, tempfile, time

VERIF = os.path.dirname(os.path.dirname(os.path.abspath(__file__)))
REPO = "/repo"

def sh(cmd, cwd=None, timeout=1800):
    p = subprocess.run(cmd, cwd=cwd, shell=True, stdout=subprocess.PIPE, stderr=subprocess.STDOUT, text=True, timeout=timeout,
                       env=dict(os.environ, CARGO_NET_OFFLINE="true"))
    return p.returncode, p.stdout

def main():
    mdir, sid, prop = sys.argv[1], sys.argv[2], sys.argv[3]
    props = [prop] + sys.argv[4:]
    patch = os.path.abspath(os.path.join(mdir, "patch.diff"))
    demo = os.path.abspath(os.path.join(mdir, "demo.rs"))
    meta = {"seed_id": sid, "property": prop, "ran": []}
    wt = tempfile.mkdtemp(prefix="seedchk.")
    os.rmdir(wt)
    rc, out = sh("git -C %s worktree add -q --detach %s HEAD" % (REPO, wt))
    try:
        rc, out = sh("git apply --check %s && git apply %s" % (patch, patch), cwd=wt)
        meta["patch_applies"] = rc == 0
        if rc != 0:
            print("PATCH DOES NOT APPLY", out[-500:]); meta["confirmed"] = False
        else:
            rc, out = sh("cargo test --offline 2>&1 | grep -E '^test result|error' ", cwd=wt)
            ok = "failed" not in out.replace("0 failed", "") and "error" not in out and "test result: ok. 59 passed" in out
            meta["existing_tests_pass_with_change"] = ok
            meta["ran"].append("cargo test --offline (with change): " + " | ".join(out.strip().splitlines()))
            os.makedirs(os.path.join(wt, "tests"), exist_ok=True)
            shutil.copy(demo, os.path.join(wt, "tests", "demo.rs"))
            rc1, out1 = sh("cargo test --offline --test demo 2>&1 | grep -E '^test |^test result|error\\[' ", cwd=wt)
            meta["demo_fails_with_change"] = "FAILED" in out1 or "failed" in out1.replace("0 failed", "")
            meta["ran"].append("cargo test --test demo (with change): " + " | ".join(out1.strip().splitlines()[-6:]))
            sh("git apply -R %s" % patch, cwd=wt)
            rc2, out2 = sh("cargo test --offline --test demo 2>&1 | grep -E '^test result|error\\[' ", cwd=wt)
            meta["demo_passes_without_change"] = "test result: ok" in out2 and "error[" not in out2
            meta["ran"].append("cargo test --test demo (without change): " + " | ".join(out2.strip().splitlines()))
            meta["confirmed"] = bool(ok and meta["demo_fails_with_change"] and meta["demo_passes_without_change"])
    finally:
        sh("git -C %s worktree remove --force %s" % (REPO, wt))
        shutil.rmtree(wt, ignore_errors=True)
    print(json.dumps({k: v for k, v in meta.items() if k != "ran"}, indent=1))
    results = {}
    if meta.get("confirmed"):
        rc, out = sh("git -C %s status --porcelain" % REPO)
        if out.strip():
            print("/repo is not clean; refusing to apply"); sys.exit(2)
        rc, out = sh("git -C %s apply %s" % (REPO, patch))
        evbak = tempfile.mkdtemp(prefix="evbak.")
        sh("cp -a %s/evidence/. %s/" % (VERIF, evbak))   # evidence of the unchanged tree must not be overwritten by mutant runs
        try:
            for p in props:
                t0 = time.time()
                rc, out = sh("./check %s" % p, cwd=VERIF, timeout=3600)
                lines = [l for l in out.splitlines() if l.startswith(("VIOLATION", "OK ", "UNDECIDED", "  failed:"))]
                results[p] = {"exit": rc, "seconds": round(time.time() - t0, 1), "lines": lines[:12]}
                print(p, "exit", rc, "|", " || ".join(lines[:6])[:900])
        finally:
            sh("git -C %s checkout -- ." % REPO)
            sh("rm -rf %s/evidence/replay.mutant && mkdir -p %s/evidence/replay && cp -a %s/evidence/replay %s/evidence/replay.mutant" % (VERIF, VERIF, VERIF, VERIF))
            sh("find %s/evidence -maxdepth 1 -name 'C*.json' -delete; cp -a %s/. %s/evidence/; rm -rf %s" % (VERIF, evbak, VERIF, evbak))
    meta["check_results"] = results
    meta["detected"] = any(r["exit"] == 1 for r in results.values())
    d = os.path.join(VERIF, "seeded", sid)
    os.makedirs(d, exist_ok=True)
    if os.path.abspath(mdir) != os.path.abspath(d):
        shutil.copy(patch, os.path.join(d, "patch.diff"))
        shutil.copy(demo, os.path.join(d, "demo.rs"))
        if os.path.isfile(os.path.join(mdir, "notes.md")):
            shutil.copy(os.path.join(mdir, "notes.md"), os.path.join(d, "notes.md"))
    json.dump(meta, open(os.path.join(d, "meta.json"), "w"), indent=1)
    print("detected:", meta["detected"])

main()
