//! splice — AST-anchored insertion of Verus contract text into a scratch copy of libmctp's sources.
//!
//! Usage: splice --src <repo/src> --out <scratch/src> --vc <dir> [--vc <dir> ...] --spec <dir> --meta <out-dir>
//!
//! For every `<module>.rs` in --src the non-test items are wrapped in `verus!{}` (R1), the visibility
//! widenings requested by `@pubitem/@pubfields` are applied (R2), `for (i, x) in E.iter().enumerate()`
//! loops are unfolded (R3) and the contract text of `<module>.vc` (searched in every --vc dir) is inserted
//! at AST anchors.  Nothing else of the repository text is changed; every modification is counted in
//! `<meta>/report.json`.  `<meta>/linemap.json` maps every output line to its origin (repository line or
//! contract clause), `<meta>/fnindex.json` lists every function with its output line range.
//!
//! Exit status: 0 ok; 2 = could not apply (lost anchor, parse error, unsupported construct).

use proc_macro2::LineColumn;
use serde_json::json;
use std::collections::BTreeMap;
use std::fs;
use std::path::{Path, PathBuf};
use syn::spanned::Spanned;
use syn::visit::Visit;

fn die(msg: &str) -> ! {
    eprintln!("splice: CANNOT-APPLY: {}", msg);
    std::process::exit(2)
}

// ---------------------------------------------------------------------------------------------
// source text + offsets
// ---------------------------------------------------------------------------------------------
struct Src {
    text: String,
    line_starts: Vec<usize>,
}
impl Src {
    fn new(text: String) -> Self {
        let mut line_starts = vec![0usize];
        for (i, b) in text.bytes().enumerate() {
            if b == b'\n' {
                line_starts.push(i + 1);
            }
        }
        Src { text, line_starts }
    }
    fn off(&self, lc: LineColumn) -> usize {
        let ls = self.line_starts[lc.line - 1];
        let rest = &self.text[ls..];
        let mut n = 0usize;
        let mut bytes = 0usize;
        for ch in rest.chars() {
            if n == lc.column {
                break;
            }
            n += 1;
            bytes += ch.len_utf8();
        }
        ls + bytes
    }
    fn range<T: Spanned>(&self, t: &T) -> (usize, usize) {
        let sp = t.span();
        (self.off(sp.start()), self.off(sp.end()))
    }
    fn line_of(&self, off: usize) -> usize {
        match self.line_starts.binary_search(&off) {
            Ok(i) => i + 1,
            Err(i) => i,
        }
    }
}

// ---------------------------------------------------------------------------------------------
// contract files
// ---------------------------------------------------------------------------------------------
#[derive(Clone, Debug)]
struct Txt {
    text: String,
    file: String,
    line: usize,
}
#[derive(Clone, Debug)]
struct Clause {
    label: String,
    t: Txt,
}
#[derive(Clone, Debug)]
struct At {
    before: bool,
    pat: String,
    nth: usize,
    t: Txt,
}
#[derive(Clone, Debug)]
struct LoopAnn {
    k: usize,
    iter_name: Option<String>,
    t: Txt,
}
#[derive(Clone, Debug, Default)]
struct FnContract {
    path: String,
    ret: Option<String>,
    attrs: Vec<Txt>,
    requires: Vec<Clause>,
    ensures: Vec<Clause>,
    prologue: Vec<Txt>,
    ats: Vec<At>,
    loops: Vec<LoopAnn>,
    file: String,
    line: usize,
}
#[derive(Default, Debug)]
struct ModContract {
    fns: Vec<FnContract>,
    impls: Vec<(String, Txt)>,
    traits: Vec<(String, Txt)>,
    tops: Vec<Txt>,
    heads: Vec<Txt>,
    pubitems: Vec<String>,
    pubfields: Vec<String>,
}

fn parse_quoted(s: &str) -> Option<(String, &str)> {
    let s = s.trim_start();
    if !s.starts_with('"') {
        return None;
    }
    let rest = &s[1..];
    let end = rest.find('"')?;
    Some((rest[..end].to_string(), &rest[end + 1..]))
}

fn parse_vc(path: &Path, mc: &mut ModContract) {
    let text = fs::read_to_string(path).unwrap_or_else(|e| die(&format!("read {}: {}", path.display(), e)));
    let fname = path.display().to_string();
    #[derive(Clone)]
    enum Sec {
        None,
        Requires(String),
        Ensures(String),
        Prologue,
        At(bool, String, usize),
        Loop(usize, Option<String>),
        Attr,
        Impl(String),
        Trait(String),
        Top,
        Head,
    }
    let mut cur_fn: Option<FnContract> = None;
    let mut sec = Sec::None;
    let mut buf = String::new();
    let mut sec_line = 0usize;

    fn flush(sec: &Sec, buf: &mut String, sec_line: usize, fname: &str, cur_fn: &mut Option<FnContract>, mc: &mut ModContract) {
        let text = buf.trim_end().to_string();
        let t = Txt { text: text.clone(), file: fname.to_string(), line: sec_line };
        let empty = text.trim().is_empty();
        match sec {
            Sec::None => {
                if !empty {
                    die(&format!("{}:{}: text outside a section", fname, sec_line));
                }
            }
            Sec::Requires(l) => {
                if empty { die(&format!("{}:{}: empty requires", fname, sec_line)); }
                cur_fn.as_mut().unwrap().requires.push(Clause { label: l.clone(), t })
            }
            Sec::Ensures(l) => {
                if empty { die(&format!("{}:{}: empty ensures", fname, sec_line)); }
                cur_fn.as_mut().unwrap().ensures.push(Clause { label: l.clone(), t })
            }
            Sec::Prologue => cur_fn.as_mut().unwrap().prologue.push(t),
            Sec::At(b, p, n) => cur_fn.as_mut().unwrap().ats.push(At { before: *b, pat: p.clone(), nth: *n, t }),
            Sec::Loop(k, name) => cur_fn.as_mut().unwrap().loops.push(LoopAnn { k: *k, iter_name: name.clone(), t }),
            Sec::Attr => cur_fn.as_mut().unwrap().attrs.push(t),
            Sec::Impl(h) => mc.impls.push((h.clone(), t)),
            Sec::Trait(h) => mc.traits.push((h.clone(), t)),
            Sec::Top => mc.tops.push(t),
            Sec::Head => mc.heads.push(t),
        }
        buf.clear();
    }

    for (i, line) in text.lines().enumerate() {
        let ln = i + 1;
        if line.starts_with("//#") {
            buf.push('\n'); // keep line numbering of the section
            continue;
        }
        if line.starts_with('@') {
            flush(&sec, &mut buf, sec_line, &fname, &mut cur_fn, mc);
            sec = Sec::None;
            sec_line = ln + 1;
            let mut it = line[1..].splitn(2, char::is_whitespace);
            let dir = it.next().unwrap();
            let arg = it.next().unwrap_or("").trim();
            let need_fn = |cur: &Option<FnContract>| {
                if cur.is_none() {
                    die(&format!("{}:{}: @{} outside @fn", fname, ln, dir));
                }
            };
            match dir {
                "fn" => {
                    if let Some(f) = cur_fn.take() {
                        mc.fns.push(f);
                    }
                    cur_fn = Some(FnContract { path: arg.to_string(), file: fname.clone(), line: ln, ..Default::default() });
                }
                "endfn" => {
                    if let Some(f) = cur_fn.take() {
                        mc.fns.push(f);
                    }
                }
                "ret" => {
                    need_fn(&cur_fn);
                    cur_fn.as_mut().unwrap().ret = Some(arg.to_string());
                }
                "requires" => {
                    need_fn(&cur_fn);
                    let mut p = arg.splitn(2, char::is_whitespace);
                    let label = p.next().unwrap_or("").to_string();
                    if label.is_empty() { die(&format!("{}:{}: @requires needs a label", fname, ln)); }
                    sec = Sec::Requires(label);
                    if let Some(rest) = p.next() { buf.push_str(rest); sec_line = ln; }
                }
                "ensures" => {
                    need_fn(&cur_fn);
                    let mut p = arg.splitn(2, char::is_whitespace);
                    let label = p.next().unwrap_or("").to_string();
                    if label.is_empty() { die(&format!("{}:{}: @ensures needs a label", fname, ln)); }
                    sec = Sec::Ensures(label);
                    if let Some(rest) = p.next() { buf.push_str(rest); sec_line = ln; }
                }
                "prologue" => {
                    need_fn(&cur_fn);
                    sec = Sec::Prologue;
                }
                "attr" => {
                    need_fn(&cur_fn);
                    sec = Sec::Attr;
                    buf.push_str(arg);
                    sec_line = ln;
                }
                "at" => {
                    need_fn(&cur_fn);
                    let mut p = arg.splitn(2, char::is_whitespace);
                    let ba = p.next().unwrap_or("");
                    let before = match ba {
                        "before" => true,
                        "after" => false,
                        _ => die(&format!("{}:{}: @at before|after \"pattern\" [nth]", fname, ln)),
                    };
                    let (pat, rest) = parse_quoted(p.next().unwrap_or("")).unwrap_or_else(|| die(&format!("{}:{}: @at needs a quoted pattern", fname, ln)));
                    let nth = if rest.trim() == "last" { usize::MAX } else { rest.trim().parse::<usize>().unwrap_or(0) };
                    sec = Sec::At(before, pat, nth);
                }
                "loop" => {
                    need_fn(&cur_fn);
                    let mut p = arg.split_whitespace();
                    let k = p.next().and_then(|s| s.parse::<usize>().ok()).unwrap_or_else(|| die(&format!("{}:{}: @loop <k> [iter-name]", fname, ln)));
                    let name = p.next().map(|s| s.to_string());
                    sec = Sec::Loop(k, name);
                }
                "impl" => {
                    if let Some(f) = cur_fn.take() { mc.fns.push(f); }
                    sec = Sec::Impl(arg.to_string());
                }
                "trait" => {
                    if let Some(f) = cur_fn.take() { mc.fns.push(f); }
                    sec = Sec::Trait(arg.to_string());
                }
                "top" => {
                    if let Some(f) = cur_fn.take() { mc.fns.push(f); }
                    sec = Sec::Top;
                }
                "head" => {
                    if let Some(f) = cur_fn.take() { mc.fns.push(f); }
                    sec = Sec::Head;
                }
                "pubitem" => mc.pubitems.push(arg.to_string()),
                "pubfields" => mc.pubfields.push(arg.to_string()),
                _ => die(&format!("{}:{}: unknown directive @{}", fname, ln, dir)),
            }
            continue;
        }
        buf.push_str(line);
        buf.push('\n');
    }
    flush(&sec, &mut buf, sec_line, &fname, &mut cur_fn, mc);
    if let Some(f) = cur_fn.take() {
        mc.fns.push(f);
    }
}

// ---------------------------------------------------------------------------------------------
// AST collection
// ---------------------------------------------------------------------------------------------
#[derive(Debug, Clone)]
struct LoopInfo {
    for_start: usize,
    pat: Option<(usize, usize)>,
    expr: Option<(usize, usize)>,
    body_open: usize,
    body_close: usize, // offset of the closing brace
    // enumerate unfolding
    enum_idx: Option<String>,
    enum_elem: Option<(usize, usize)>,
    enum_recv: Option<(usize, usize)>,
    has_break: bool,
    whole: (usize, usize),
}
#[derive(Debug, Clone)]
struct FnInfo {
    key: String,
    item_start: usize,
    fn_start: usize,
    ret_ty: Option<(usize, usize)>,
    sig_end: usize, // offset of `{` or `;`
    block: Option<(usize, usize)>,
    stmts: Vec<(usize, usize)>,
    loops: Vec<LoopInfo>,
    cfg_test_stmts: Vec<(usize, usize)>,
    end: usize,
}
struct ImplInfo {
    key: String,
    open: usize,
}
struct VisEdit {
    start: usize,
    end: usize,
}

struct Collector<'a> {
    src: &'a Src,
    ctx: Vec<String>, // impl/trait context
    fns: Vec<FnInfo>,
    impls: Vec<ImplInfo>,
    traits: Vec<ImplInfo>,
    cfg_test_items: Vec<(usize, usize)>,
    cur: Option<FnInfo>,
    item_vis: BTreeMap<String, Vec<(String, Option<(usize, usize)>, usize)>>, // name -> [(kind, vis range, keyword start)]
    field_vis: BTreeMap<String, Vec<(Option<(usize, usize)>, usize)>>,        // struct -> [(vis range, ident start)]
}

fn has_cfg_test(attrs: &[syn::Attribute]) -> bool {
    attrs.iter().any(|a| {
        a.path().is_ident("cfg") && {
            let s = quote::ToTokens::to_token_stream(a).to_string();
            s.replace(' ', "").contains("cfg(test)")
        }
    })
}
fn last_ident(p: &syn::Path) -> String {
    p.segments.last().map(|s| s.ident.to_string()).unwrap_or_default()
}
fn type_name(t: &syn::Type) -> String {
    match t {
        syn::Type::Path(tp) => last_ident(&tp.path),
        syn::Type::Reference(r) => type_name(&r.elem),
        _ => quote::ToTokens::to_token_stream(t).to_string().replace(' ', ""),
    }
}

struct BreakFinder(bool);
impl<'ast> Visit<'ast> for BreakFinder {
    fn visit_expr_break(&mut self, _: &'ast syn::ExprBreak) {
        self.0 = true;
    }
    fn visit_expr_continue(&mut self, _: &'ast syn::ExprContinue) {
        self.0 = true;
    }
    fn visit_expr_return(&mut self, _: &'ast syn::ExprReturn) {
        self.0 = true;
    }
    fn visit_expr_try(&mut self, _: &'ast syn::ExprTry) {
        self.0 = true;
    }
}

impl<'a> Collector<'a> {
    fn vis_range(&self, v: &syn::Visibility) -> Option<(usize, usize)> {
        match v {
            syn::Visibility::Inherited => None,
            _ => Some(self.src.range(v)),
        }
    }
    fn do_fn(&mut self, attrs: &[syn::Attribute], sig: &syn::Signature, block: Option<&syn::Block>, whole: (usize, usize), semi_or_open: usize) {
        let name = sig.ident.to_string();
        let key = match self.ctx.last() {
            Some(c) => format!("{}::{}", c, name),
            None => name,
        };
        let item_start = attrs.iter().map(|a| self.src.range(a).0).min().unwrap_or(whole.0).min(whole.0);
        let ret_ty = match &sig.output {
            syn::ReturnType::Default => None,
            syn::ReturnType::Type(_, t) => Some(self.src.range(&**t)),
        };
        let fi = FnInfo {
            key,
            item_start,
            fn_start: self.src.range(&sig.fn_token).0,
            ret_ty,
            sig_end: semi_or_open,
            block: block.map(|b| {
                let o = self.src.off(b.brace_token.span.open().start());
                let c = self.src.off(b.brace_token.span.close().start());
                (o, c)
            }),
            stmts: vec![],
            loops: vec![],
            cfg_test_stmts: vec![],
            end: whole.1,
        };
        let saved = self.cur.take();
        self.cur = Some(fi);
        if let Some(b) = block {
            self.visit_block(b);
        }
        let done = self.cur.take().unwrap();
        self.fns.push(done);
        self.cur = saved;
    }
}

impl<'a, 'ast> Visit<'ast> for Collector<'a> {
    fn visit_item(&mut self, it: &'ast syn::Item) {
        let attrs: &[syn::Attribute] = match it {
            syn::Item::Mod(m) => &m.attrs,
            syn::Item::Fn(f) => &f.attrs,
            syn::Item::Impl(i) => &i.attrs,
            syn::Item::ExternCrate(e) => &e.attrs,
            syn::Item::Use(u) => &u.attrs,
            _ => &[],
        };
        if has_cfg_test(attrs) {
            let (s, e) = self.src.range(it);
            let s = attrs.iter().map(|a| self.src.range(a).0).min().unwrap_or(s).min(s);
            self.cfg_test_items.push((s, e));
            return;
        }
        syn::visit::visit_item(self, it);
    }
    fn visit_item_struct(&mut self, s: &'ast syn::ItemStruct) {
        let name = s.ident.to_string();
        let vr = self.vis_range(&s.vis);
        let kw = self.src.range(&s.struct_token).0;
        self.item_vis.entry(name.clone()).or_default().push(("struct".into(), vr, kw));
        if let syn::Fields::Named(n) = &s.fields {
            for f in &n.named {
                let id_start = self.src.range(f.ident.as_ref().unwrap()).0;
                let vr = self.vis_range(&f.vis);
                self.field_vis.entry(name.clone()).or_default().push((vr, id_start));
            }
        }
    }
    fn visit_item_trait(&mut self, t: &'ast syn::ItemTrait) {
        let name = t.ident.to_string();
        let vr = self.vis_range(&t.vis);
        let kw = self.src.range(&t.trait_token).0;
        self.item_vis.entry(name.clone()).or_default().push(("trait".into(), vr, kw));
        self.traits.push(ImplInfo { key: name.clone(), open: self.src.off(t.brace_token.span.open().end()) });
        self.ctx.push(name);
        syn::visit::visit_item_trait(self, t);
        self.ctx.pop();
    }
    fn visit_item_impl(&mut self, i: &'ast syn::ItemImpl) {
        let ty = type_name(&i.self_ty);
        let (key, ctx) = match &i.trait_ {
            Some((_, p, _)) => (format!("{} as {}", ty, last_ident(p)), format!("<{} as {}>", ty, last_ident(p))),
            None => (ty.clone(), ty.clone()),
        };
        self.impls.push(ImplInfo { key, open: self.src.off(i.brace_token.span.open().end()) });
        self.ctx.push(ctx);
        syn::visit::visit_item_impl(self, i);
        self.ctx.pop();
    }
    fn visit_item_fn(&mut self, f: &'ast syn::ItemFn) {
        let whole = self.src.range(f);
        let open = self.src.off(f.block.brace_token.span.open().start());
        self.do_fn(&f.attrs, &f.sig, Some(&f.block), whole, open);
    }
    fn visit_impl_item_fn(&mut self, f: &'ast syn::ImplItemFn) {
        let whole = self.src.range(f);
        let open = self.src.off(f.block.brace_token.span.open().start());
        self.do_fn(&f.attrs, &f.sig, Some(&f.block), whole, open);
    }
    fn visit_trait_item_fn(&mut self, f: &'ast syn::TraitItemFn) {
        let whole = self.src.range(f);
        let so = match (&f.default, &f.semi_token) {
            (Some(b), _) => self.src.off(b.brace_token.span.open().start()),
            (None, Some(s)) => self.src.range(s).0,
            _ => whole.1,
        };
        self.do_fn(&f.attrs, &f.sig, f.default.as_ref(), whole, so);
    }
    fn visit_stmt(&mut self, s: &'ast syn::Stmt) {
        let r = self.src.range(s);
        let attrs: &[syn::Attribute] = match s {
            syn::Stmt::Macro(m) => &m.attrs,
            syn::Stmt::Local(l) => &l.attrs,
            _ => &[],
        };
        if has_cfg_test(attrs) {
            if let Some(c) = self.cur.as_mut() {
                c.cfg_test_stmts.push(r);
            }
            return;
        }
        if let Some(c) = self.cur.as_mut() {
            c.stmts.push(r);
        }
        syn::visit::visit_stmt(self, s);
    }
    fn visit_expr_for_loop(&mut self, f: &'ast syn::ExprForLoop) {
        let whole = self.src.range(f);
        let mut li = LoopInfo {
            for_start: self.src.range(&f.for_token).0,
            pat: Some(self.src.range(&*f.pat)),
            expr: Some(self.src.range(&*f.expr)),
            body_open: self.src.off(f.body.brace_token.span.open().start()),
            body_close: self.src.off(f.body.brace_token.span.close().start()),
            enum_idx: None,
            enum_elem: None,
            enum_recv: None,
            has_break: false,
            whole,
        };
        if let syn::Expr::MethodCall(mc) = &*f.expr {
            if mc.method == "enumerate" && mc.args.is_empty() {
                if let syn::Pat::Tuple(pt) = &*f.pat {
                    if pt.elems.len() == 2 {
                        if let (syn::Pat::Ident(a), b) = (&pt.elems[0], &pt.elems[1]) {
                            li.enum_idx = Some(a.ident.to_string());
                            li.enum_elem = Some(self.src.range(b));
                            li.enum_recv = Some(self.src.range(&*mc.receiver));
                            let mut bf = BreakFinder(false);
                            bf.visit_block(&f.body);
                            li.has_break = bf.0;
                        }
                    }
                }
                if li.enum_idx.is_none() {
                    die(&format!("enumerate loop with an unsupported pattern at offset {}", whole.0));
                }
            }
        }
        if let Some(c) = self.cur.as_mut() {
            c.loops.push(li);
        }
        syn::visit::visit_expr_for_loop(self, f);
    }
    fn visit_expr_while(&mut self, w: &'ast syn::ExprWhile) {
        let whole = self.src.range(w);
        let li = LoopInfo {
            for_start: self.src.range(&w.while_token).0,
            pat: None,
            expr: None,
            body_open: self.src.off(w.body.brace_token.span.open().start()),
            body_close: self.src.off(w.body.brace_token.span.close().start()),
            enum_idx: None,
            enum_elem: None,
            enum_recv: None,
            has_break: false,
            whole,
        };
        if let Some(c) = self.cur.as_mut() {
            c.loops.push(li);
        }
        syn::visit::visit_expr_while(self, w);
    }
    fn visit_expr_loop(&mut self, w: &'ast syn::ExprLoop) {
        let whole = self.src.range(w);
        let li = LoopInfo {
            for_start: self.src.range(&w.loop_token).0,
            pat: None,
            expr: None,
            body_open: self.src.off(w.body.brace_token.span.open().start()),
            body_close: self.src.off(w.body.brace_token.span.close().start()),
            enum_idx: None,
            enum_elem: None,
            enum_recv: None,
            has_break: false,
            whole,
        };
        if let Some(c) = self.cur.as_mut() {
            c.loops.push(li);
        }
        syn::visit::visit_expr_loop(self, w);
    }
}

// ---------------------------------------------------------------------------------------------
// edits
// ---------------------------------------------------------------------------------------------
#[derive(Clone, Debug)]
enum Origin {
    Repo,
    Vc { file: String, line: usize, func: String, kind: String, label: String },
}
#[derive(Clone, Debug)]
struct Edit {
    pos: usize,
    del: usize,
    ins: String,
    origin: Origin,
    seq: usize,
}

struct Editor {
    edits: Vec<Edit>,
}
impl Editor {
    fn ins(&mut self, pos: usize, text: String, origin: Origin) {
        let seq = self.edits.len();
        self.edits.push(Edit { pos, del: 0, ins: text, origin, seq });
    }
    fn del(&mut self, start: usize, end: usize) {
        let seq = self.edits.len();
        self.edits.push(Edit { pos: start, del: end - start, ins: String::new(), origin: Origin::Repo, seq });
    }
    fn rep(&mut self, start: usize, end: usize, text: String) {
        let seq = self.edits.len();
        self.edits.push(Edit { pos: start, del: end - start, ins: text, origin: Origin::Repo, seq });
    }
}

fn vc_origin(t: &Txt, func: &str, kind: &str, label: &str) -> Origin {
    Origin::Vc { file: t.file.clone(), line: t.line, func: func.to_string(), kind: kind.to_string(), label: label.to_string() }
}

struct Piece {
    text: String,
    origin: Origin,
    repo_off: usize, // for Repo pieces
}

// ---------------------------------------------------------------------------------------------
fn main() {
    let args: Vec<String> = std::env::args().collect();
    let mut src_dir = PathBuf::new();
    let mut out_dir = PathBuf::new();
    let mut meta_dir = PathBuf::new();
    let mut vc_dirs: Vec<PathBuf> = vec![];
    let mut spec_dirs: Vec<PathBuf> = vec![];
    let mut canary = false;
    let mut extra_mods: Vec<String> = vec![];
    let mut no_lib = false;
    // lenient anchoring: a contract (or a single proof hint) whose anchor is lost is left out and listed in
    // report.json "unapplied"; the driver treats the affected functions as undecided, never as proved
    let mut drop_hints: Vec<String> = vec![];
    let mut drop_contract: Vec<String> = vec![];
    let mut unapplied = Vec::<serde_json::Value>::new();
    let mut i = 1;
    while i < args.len() {
        match args[i].as_str() {
            "--src" => { src_dir = PathBuf::from(&args[i + 1]); i += 2; }
            "--out" => { out_dir = PathBuf::from(&args[i + 1]); i += 2; }
            "--meta" => { meta_dir = PathBuf::from(&args[i + 1]); i += 2; }
            "--vc" => { vc_dirs.push(PathBuf::from(&args[i + 1])); i += 2; }
            "--spec" => { spec_dirs.push(PathBuf::from(&args[i + 1])); i += 2; }
            "--canary" => { canary = true; i += 1; }
            "--extra-mod" => { extra_mods.push(args[i + 1].clone()); i += 2; }
            "--no-lib" => { no_lib = true; i += 1; }
            "--drop-hints" => { drop_hints.push(args[i + 1].clone()); i += 2; }
            "--drop-contract" => { drop_contract.push(args[i + 1].clone()); i += 2; }
            a => die(&format!("unknown argument {}", a)),
        }
    }
    fs::create_dir_all(&out_dir).unwrap();
    fs::create_dir_all(&meta_dir).unwrap();

    let mut report = BTreeMap::<String, serde_json::Value>::new();
    let mut r1 = 0usize;
    let mut r2 = 0usize;
    let mut r3 = 0usize;
    let mut dropped_test_items = 0usize;
    let mut dropped_test_stmts = 0usize;
    let mut linemap = serde_json::Map::new();
    let mut fnindex = Vec::<serde_json::Value>::new();
    let mut used_contracts = Vec::<serde_json::Value>::new();

    let mut files: Vec<PathBuf> = fs::read_dir(&src_dir)
        .unwrap_or_else(|e| die(&format!("read_dir {}: {}", src_dir.display(), e)))
        .filter_map(|e| e.ok().map(|e| e.path()))
        .filter(|p| p.extension().map(|e| e == "rs").unwrap_or(false))
        .collect();
    files.sort();
    let mut spec_mods: Vec<String> = vec![];
    for sd in &spec_dirs {
        let mut sf: Vec<PathBuf> = fs::read_dir(sd).unwrap().filter_map(|e| e.ok().map(|e| e.path())).filter(|p| p.extension().map(|e| e == "rs").unwrap_or(false)).collect();
        sf.sort();
        for p in sf {
            let stem = p.file_stem().unwrap().to_string_lossy().to_string();
            let text = fs::read_to_string(&p).unwrap();
            let outp = out_dir.join(format!("{}.rs", stem));
            fs::write(&outp, &text).unwrap();
            let n = text.lines().count();
            let mut lm = Vec::new();
            for l in 1..=n {
                lm.push(json!({"o": "spec", "file": p.display().to_string(), "line": l}));
            }
            linemap.insert(format!("{}.rs", stem), serde_json::Value::Array(lm));
            spec_mods.push(stem);
        }
    }

    for path in &files {
        let fname = path.file_name().unwrap().to_string_lossy().to_string();
        let module = path.file_stem().unwrap().to_string_lossy().to_string();
        let text = fs::read_to_string(path).unwrap();
        let src = Src::new(text);
        let file = syn::parse_file(&src.text).unwrap_or_else(|e| die(&format!("parse {}: {}", fname, e)));

        let mut mc = ModContract::default();
        for d in &vc_dirs {
            let mut cands: Vec<PathBuf> = match fs::read_dir(d) {
                Ok(rd) => rd.filter_map(|e| e.ok().map(|e| e.path())).collect(),
                Err(_) => vec![],
            };
            cands.sort();
            for c in cands {
                let n = c.file_name().unwrap().to_string_lossy().to_string();
                if n == format!("{}.vc", module) || (n.starts_with(&format!("{}.", module)) && n.ends_with(".vc")) {
                    parse_vc(&c, &mut mc);
                }
            }
        }

        let mut col = Collector {
            src: &src,
            ctx: vec![],
            fns: vec![],
            impls: vec![],
            traits: vec![],
            cfg_test_items: vec![],
            cur: None,
            item_vis: BTreeMap::new(),
            field_vis: BTreeMap::new(),
        };
        col.visit_file(&file);

        let mut ed = Editor { edits: vec![] };

        if module == "lib" {
            // R1 (crate root): drop #![no_std], relax #![deny(missing_docs)], drop cfg(test) items, add spec modules
            for a in &file.attrs {
                let s = quote::ToTokens::to_token_stream(a).to_string().replace(' ', "");
                if s == "#![no_std]" || s == "#![deny(missing_docs)]" {
                    let (st, en) = src.range(a);
                    ed.del(st, en);
                    r1 += 1;
                }
            }
            for (s, e) in &col.cfg_test_items {
                ed.del(*s, *e);
                dropped_test_items += 1;
            }
            let mut extra = String::from("\n#![allow(missing_docs)]\n");
            // inner attributes must come first: put the allow right after the last inner attribute
            let last_inner = file.attrs.iter().map(|a| src.range(a).1).max().unwrap_or(0);
            ed.ins(last_inner, std::mem::take(&mut extra), Origin::Vc { file: "splice:R1".into(), line: 0, func: String::new(), kind: "r1".into(), label: String::new() });
            let mut mods = String::from("\n");
            for m in spec_mods.iter().chain(extra_mods.iter()) {
                mods.push_str(&format!("pub mod {};\n", m));
            }
            ed.ins(src.text.len(), mods, Origin::Vc { file: "splice:R1".into(), line: 0, func: String::new(), kind: "r1".into(), label: String::new() });
        } else {
            // R1: wrap items in verus!{}
            let first_item = file.items.first().map(|it| {
                let (s, _) = src.range(it);
                // include outer attributes / doc comments of the first item
                let attrs: &[syn::Attribute] = match it {
                    syn::Item::Use(u) => &u.attrs,
                    syn::Item::Struct(s) => &s.attrs,
                    syn::Item::Enum(s) => &s.attrs,
                    syn::Item::Fn(s) => &s.attrs,
                    syn::Item::Impl(s) => &s.attrs,
                    syn::Item::Trait(s) => &s.attrs,
                    syn::Item::Macro(s) => &s.attrs,
                    syn::Item::Const(s) => &s.attrs,
                    syn::Item::Type(s) => &s.attrs,
                    _ => &[],
                };
                attrs.iter().map(|a| src.range(a).0).min().unwrap_or(s).min(s)
            }).unwrap_or(src.text.len());
            ed.ins(first_item, "use vstd::prelude::*;\n#[allow(unused_imports)]\nuse vstd::std_specs::iter::IteratorSpec;\n#[allow(unused_imports)]\nuse crate::verif_prelude::*;\nverus! {\n".to_string(),
                Origin::Vc { file: "splice:R1".into(), line: 0, func: String::new(), kind: "r1".into(), label: String::new() });
            r1 += 1;
            for t in &mc.heads {
                ed.ins(first_item, format!("\n{}\n", t.text), vc_origin(t, "", "head", ""));
            }
            for (s, e) in &col.cfg_test_items {
                ed.del(*s, *e);
                dropped_test_items += 1;
            }
            // module-level additions + closing brace
            let mut tail_pos = src.text.len();
            // keep position at end of file
            if !src.text.ends_with('\n') {
                ed.ins(tail_pos, "\n".into(), Origin::Repo);
            }
            for t in &mc.tops {
                ed.ins(tail_pos, format!("\n{}\n", t.text), vc_origin(t, "", "top", ""));
            }
            ed.ins(tail_pos, "\n} // verus!\n".to_string(), Origin::Vc { file: "splice:R1".into(), line: 0, func: String::new(), kind: "r1".into(), label: String::new() });
            tail_pos += 0;
            let _ = tail_pos;
        }

        // R2 visibility
        for name in &mc.pubitems {
            let v = col.item_vis.get(name).unwrap_or_else(|| die(&format!("{}: @pubitem {} not found", fname, name)));
            for (_k, vr, kw) in v {
                match vr {
                    Some((s, e)) => {
                        if &src.text[*s..*e] != "pub" {
                            ed.rep(*s, *e, "pub".into());
                            r2 += 1;
                        }
                    }
                    None => {
                        ed.ins(*kw, "pub ".into(), Origin::Repo);
                        r2 += 1;
                    }
                }
            }
        }
        for name in &mc.pubfields {
            let v = col.field_vis.get(name).unwrap_or_else(|| die(&format!("{}: @pubfields {} not found", fname, name)));
            for (vr, id) in v {
                match vr {
                    Some((s, e)) => {
                        if &src.text[*s..*e] != "pub" {
                            ed.rep(*s, *e, "pub".into());
                            r2 += 1;
                        }
                    }
                    None => {
                        ed.ins(*id, "pub ".into(), Origin::Repo);
                        r2 += 1;
                    }
                }
            }
        }

        // impl / trait insertions
        for (hdr, t) in &mc.impls {
            let cands: Vec<&ImplInfo> = col.impls.iter().filter(|i| &i.key == hdr).collect();
            if cands.len() != 1 {
                die(&format!("{}: @impl {}: {} matching impl blocks", t.file, hdr, cands.len()));
            }
            ed.ins(cands[0].open, format!("\n{}\n", t.text), vc_origin(t, hdr, "impl", ""));
        }
        for (hdr, t) in &mc.traits {
            let cands: Vec<&ImplInfo> = col.traits.iter().filter(|i| &i.key == hdr).collect();
            if cands.len() != 1 {
                die(&format!("{}: @trait {}: {} matching traits", t.file, hdr, cands.len()));
            }
            ed.ins(cands[0].open, format!("\n{}\n", t.text), vc_origin(t, hdr, "trait", ""));
        }

        // statement-level cfg(test) removal + R3 in every fn
        for f in &col.fns {
            for (s, e) in &f.cfg_test_stmts {
                ed.del(*s, *e);
                dropped_test_stmts += 1;
            }
            for l in &f.loops {
                if let Some(idx) = &l.enum_idx {
                    if l.has_break {
                        die(&format!("{}: enumerate loop in {} contains break/continue/return/?", fname, f.key));
                    }
                    let (ps, pe) = l.pat.unwrap();
                    let (es, ee) = l.enum_elem.unwrap();
                    let elem = src.text[es..ee].to_string();
                    let (xs, xe) = l.expr.unwrap();
                    let (rs, re) = l.enum_recv.unwrap();
                    let recv = src.text[rs..re].to_string();
                    ed.ins(l.for_start, format!("{{ let mut {}: usize = 0; ", idx), Origin::Repo);
                    ed.rep(ps, pe, elem);
                    ed.rep(xs, xe, recv);
                    ed.ins(l.body_close, format!(" {} += 1; ", idx), Origin::Repo);
                    ed.ins(l.whole.1, " }".into(), Origin::Repo);
                    r3 += 1;
                }
            }
        }

        // fn contracts
        for fc in &mc.fns {
            let cands: Vec<&FnInfo> = col.fns.iter().filter(|f| f.key == fc.path).collect();
            let fq0 = format!("{}::{}", module, fc.path);
            let lost_contract = |why: String, unapplied: &mut Vec<serde_json::Value>| {
                unapplied.push(json!({"fn": fq0, "kind": "contract", "why": why, "vc": fc.file, "vc_line": fc.line,
                    "requires": fc.requires.iter().map(|c| c.label.clone()).collect::<Vec<_>>(),
                    "ensures": fc.ensures.iter().map(|c| c.label.clone()).collect::<Vec<_>>()}));
            };
            if drop_contract.iter().any(|d| *d == fq0) {
                lost_contract("dropped by the driver (the contract text no longer compiles against this function)".into(), &mut unapplied);
                continue;
            }
            if cands.len() != 1 {
                lost_contract(format!("@fn {}: {} matching functions in {} (lost anchor)", fc.path, cands.len(), fname), &mut unapplied);
                continue;
            }
            if fc.ret.is_some() && cands[0].ret_ty.is_none() {
                lost_contract(format!("@ret on {} which has no return type", fc.path), &mut unapplied);
                continue;
            }
            let f = cands[0];
            let fq = format!("{}::{}", module, fc.path);
            for a in &fc.attrs {
                ed.ins(f.item_start, format!("{}\n", a.text), vc_origin(a, &fq, "attr", ""));
            }
            if let Some(rn) = &fc.ret {
                match f.ret_ty {
                    Some((s, e)) => {
                        ed.ins(s, format!("({}: ", rn), Origin::Repo);
                        ed.ins(e, ")".into(), Origin::Repo);
                    }
                    None => die(&format!("{}:{}: @ret on {} which has no return type", fc.file, fc.line, fc.path)),
                }
            }
            if !fc.requires.is_empty() {
                ed.ins(f.sig_end, "\n    requires\n".into(), Origin::Vc { file: fc.file.clone(), line: fc.line, func: fq.clone(), kind: "kw".into(), label: String::new() });
                for c in &fc.requires {
                    ed.ins(f.sig_end, format!("{}\n    ,\n", c.t.text), vc_origin(&c.t, &fq, "requires", &c.label));
                }
            }
            if !fc.ensures.is_empty() {
                ed.ins(f.sig_end, "\n    ensures\n".into(), Origin::Vc { file: fc.file.clone(), line: fc.line, func: fq.clone(), kind: "kw".into(), label: String::new() });
                for c in &fc.ensures {
                    ed.ins(f.sig_end, format!("{}\n    ,\n", c.t.text), vc_origin(&c.t, &fq, "ensures", &c.label));
                }
            }
            let no_hints = drop_hints.iter().any(|d| *d == fq);
            if no_hints && (!fc.prologue.is_empty() || !fc.ats.is_empty() || !fc.loops.is_empty()) {
                unapplied.push(json!({"fn": fq, "kind": "hints", "why": "proof hints dropped by the driver (a hint no longer compiles against this function)", "vc": fc.file, "vc_line": fc.line}));
            }
            if !fc.prologue.is_empty() && !no_hints {
                let (open, _) = f.block.unwrap_or_else(|| die(&format!("{}:{}: @prologue on bodiless {}", fc.file, fc.line, fc.path)));
                for p in &fc.prologue {
                    ed.ins(open + 1, format!("\n{}\n", p.text), vc_origin(p, &fq, "hint", ""));
                }
            }
            if canary && f.block.is_some() && !fc.attrs.iter().any(|a| a.text.contains("external")) {
                // vacuity canary: with the contract unchanged, `assert(false)` at the start of the body must FAIL
                // (it verifies only if the preconditions are contradictory or an assumption in scope is inconsistent)
                let (open, _) = f.block.unwrap();
                ed.ins(open + 1, "\n        assert(false); /*CANARY*/\n".into(), Origin::Vc { file: fc.file.clone(), line: fc.line, func: fq.clone(), kind: "canary".into(), label: "CANARY".into() });
            }
            for at in &fc.ats {
                if no_hints { break; }
                let (bs, be) = f.block.unwrap_or_else(|| die(&format!("{}:{}: @at on bodiless {}", fc.file, fc.line, fc.path)));
                // all occurrences of pat within the body
                let body = &src.text[bs..be];
                let mut occ: Vec<usize> = vec![];
                let mut from = 0usize;
                while let Some(p) = body[from..].find(&at.pat) {
                    occ.push(bs + from + p);
                    from += p + at.pat.len().max(1);
                }
                // ignore occurrences inside removed cfg(test) statements
                let occ: Vec<usize> = occ.into_iter().filter(|o| !f.cfg_test_stmts.iter().any(|(s, e)| o >= s && o < e)).collect();
                if occ.is_empty() || (at.nth != usize::MAX && at.nth >= occ.len()) {
                    unapplied.push(json!({"fn": fq, "kind": "hint", "why": format!("@at pattern {:?} (#{}) not found (lost anchor)", at.pat, if at.nth == usize::MAX { "last".to_string() } else { at.nth.to_string() }), "vc": at.t.file, "vc_line": at.t.line}));
                    continue;
                }
                let o = if at.nth == usize::MAX { *occ.last().unwrap() } else { occ[at.nth] };
                // innermost statement containing o
                let mut best: Option<(usize, usize)> = None;
                for (s, e) in &f.stmts {
                    if *s <= o && o < *e {
                        match best {
                            Some((bs2, be2)) if (be2 - bs2) <= (e - s) => {}
                            _ => best = Some((*s, *e)),
                        }
                    }
                }
                let (s, e) = best.unwrap_or_else(|| die(&format!("{}:{}: @at pattern {:?} is not inside a statement of {}", at.t.file, at.t.line, at.pat, fc.path)));
                if at.before {
                    ed.ins(s, format!("{}\n", at.t.text), vc_origin(&at.t, &fq, "hint", ""));
                } else {
                    ed.ins(e, format!("\n{}\n", at.t.text), vc_origin(&at.t, &fq, "hint", ""));
                }
            }
            for la in &fc.loops {
                if no_hints { break; }
                if la.k >= f.loops.len() {
                    unapplied.push(json!({"fn": fq, "kind": "hint", "why": format!("@loop {} but the function has {} loops (lost anchor)", la.k, f.loops.len()), "vc": la.t.file, "vc_line": la.t.line}));
                    continue;
                }
                let l = &f.loops[la.k];
                if let Some(n) = &la.iter_name {
                    let (xs, _) = l.expr.unwrap_or_else(|| die(&format!("{}:{}: iterator name on a non-for loop", la.t.file, la.t.line)));
                    ed.ins(xs, format!("{}: ", n), Origin::Repo);
                }
                ed.ins(l.body_open, format!("\n{}\n", la.t.text), vc_origin(&la.t, &fq, "invariant", ""));
            }
            used_contracts.push(json!({"fn": fq, "requires": fc.requires.iter().map(|c| c.label.clone()).collect::<Vec<_>>(),
                "ensures": fc.ensures.iter().map(|c| c.label.clone()).collect::<Vec<_>>(), "vc": fc.file, "vc_line": fc.line,
                "attrs": fc.attrs.iter().map(|a| a.text.clone()).collect::<Vec<_>>()}));
        }

        // ---- apply edits
        let mut edits = ed.edits.clone();
        edits.sort_by(|a, b| a.pos.cmp(&b.pos).then((a.del > 0).cmp(&(b.del > 0))).then(a.seq.cmp(&b.seq)));
        // check deletions do not overlap
        let mut dels: Vec<(usize, usize)> = edits.iter().filter(|e| e.del > 0).map(|e| (e.pos, e.pos + e.del)).collect();
        dels.sort();
        for w in dels.windows(2) {
            if w[0].1 > w[1].0 {
                die(&format!("{}: overlapping rewrites at {}..{} / {}..{}", fname, w[0].0, w[0].1, w[1].0, w[1].1));
            }
        }
        for e in &edits {
            if e.del == 0 {
                if dels.iter().any(|(s, en)| e.pos > *s && e.pos < *en) {
                    die(&format!("{}: insertion inside a removed region at {}", fname, e.pos));
                }
            }
        }
        let mut pieces: Vec<Piece> = vec![];
        let mut cur = 0usize;
        // mapping original offset -> output offset
        let mut out_len = 0usize;
        let mut marks: Vec<(usize, usize)> = vec![]; // (orig_off, out_off) at piece starts
        for e in &edits {
            if e.pos > cur {
                marks.push((cur, out_len));
                let t = src.text[cur..e.pos].to_string();
                out_len += t.len();
                pieces.push(Piece { text: t, origin: Origin::Repo, repo_off: cur });
                cur = e.pos;
            }
            if !e.ins.is_empty() {
                out_len += e.ins.len();
                pieces.push(Piece { text: e.ins.clone(), origin: e.origin.clone(), repo_off: e.pos });
            }
            if e.del > 0 {
                cur = cur.max(e.pos + e.del);
            }
        }
        if cur < src.text.len() {
            marks.push((cur, out_len));
            pieces.push(Piece { text: src.text[cur..].to_string(), origin: Origin::Repo, repo_off: cur });
        }
        let mut out = String::new();
        let mut lm: Vec<serde_json::Value> = vec![];
        // per output line: origin of first non-whitespace char
        let mut line_origin: Option<serde_json::Value> = None;
        for p in &pieces {
            let mut vc_line_extra = 0usize;
            let mut off_in_piece = 0usize;
            for ch in p.text.chars() {
                if ch == '\n' {
                    lm.push(line_origin.take().unwrap_or(json!({"o": "blank"})));
                    out.push(ch);
                    off_in_piece += 1;
                    vc_line_extra += 1;
                    continue;
                }
                if line_origin.is_none() && !ch.is_whitespace() {
                    line_origin = Some(match &p.origin {
                        Origin::Repo => json!({"o": "repo", "file": format!("src/{}", fname), "line": src.line_of(p.repo_off + off_in_piece)}),
                        Origin::Vc { file, line, func, kind, label } => {
                            // leading "\n" of an insertion does not count as a contract line
                            let lead = p.text.chars().take_while(|c| *c == '\n').count();
                            json!({"o": "vc", "file": file, "line": line + vc_line_extra.saturating_sub(lead), "fn": func, "kind": kind, "label": label})
                        }
                    });
                }
                out.push(ch);
                off_in_piece += ch.len_utf8();
            }
        }
        if line_origin.is_some() {
            lm.push(line_origin.take().unwrap());
        }
        fs::write(out_dir.join(&fname), &out).unwrap();
        linemap.insert(fname.clone(), serde_json::Value::Array(lm));

        // fn index with output line ranges
        let out_src = Src::new(out.clone());
        let map_off = |o: usize| -> usize {
            // output offset of original offset o (insertions at o are placed before it)
            let mut delta: isize = 0;
            for e in &edits {
                if e.pos <= o {
                    delta += e.ins.len() as isize;
                    let d = e.del.min(o.saturating_sub(e.pos));
                    delta -= d as isize;
                } else {
                    break;
                }
            }
            (o as isize + delta) as usize
        };
        for f in &col.fns {
            let contracted = mc.fns.iter().find(|c| c.path == f.key);
            // start: first inserted attr / the fn keyword; end: closing brace
            let so = map_off(f.item_start);
            let eo = map_off(f.end);
            // item_start insertions are placed before, so step back over attrs we inserted
            let attr_len: usize = contracted.map(|c| c.attrs.iter().map(|a| a.text.len() + 1).sum()).unwrap_or(0);
            let so = so.saturating_sub(attr_len);
            fnindex.push(json!({
                "fn": format!("{}::{}", module, f.key),
                "file": fname,
                "out_start": out_src.line_of(so),
                "out_end": out_src.line_of(eo.min(out.len().saturating_sub(1))),
                "repo_start": src.line_of(f.fn_start),
                "repo_end": src.line_of(f.end.saturating_sub(1)),
                "has_body": f.block.is_some(),
                "loops": f.loops.len(),
                "contracted": contracted.is_some(),
            }));
        }
        let _ = marks;
    }

    report.insert("R1_wrapped_modules_and_crate_attrs".into(), json!(r1));
    report.insert("R2_visibility_widenings".into(), json!(r2));
    report.insert("R3_enumerate_unfoldings".into(), json!(r3));
    report.insert("dropped_cfg_test_items".into(), json!(dropped_test_items));
    report.insert("dropped_cfg_test_statements".into(), json!(dropped_test_stmts));
    report.insert("contracts".into(), json!(used_contracts));
    report.insert("unapplied".into(), json!(unapplied));
    fs::write(meta_dir.join("report.json"), serde_json::to_string_pretty(&report).unwrap()).unwrap();
    fs::write(meta_dir.join("linemap.json"), serde_json::to_string(&serde_json::Value::Object(linemap)).unwrap()).unwrap();
    fs::write(meta_dir.join("fnindex.json"), serde_json::to_string_pretty(&fnindex).unwrap()).unwrap();
}
