"""Counterexample search + replay, natively against the real crate (replay/src/search.rs: one randomized differential
check per property against the oracle written from the property statements).  Verus gives no model, so a failed
obligation is paired with this search; a found input is recorded as a tape and replays deterministically."""
import os, json, re
import vlib

ITERS = {"quick": 200000, "thorough": 2000000}          # after a failed obligation / undecided proof
CROSS_ITERS = {"quick": 30000, "thorough": 400000}      # independent cross-check when the proof passed


def find_counterexample(pid, violations, seed, tier="quick"):
    # a recorded/fixed finding's witness that misbehaves is itself a failing input replayed on the real code
    for v in violations:
        if v.get("kind") == "search" and v.get("cex"):
            return v["cex"]
        if v.get("kind") == "witness" and v.get("verdict") in ("reproduces", "other"):
            return {"reproduced": True, "kind": "witness", "witness": v["witness"], "detail": v.get("detail")}
    binp, err = vlib.build_replay()
    if binp is None:
        return {"reproduced": False, "error": "replay crate does not build: " + (err or "")[-300:]}
    rc, out, se, dt = vlib.run([binp, "search", pid, str(seed), str(ITERS.get(tier, 6000))], timeout=600)
    m = re.search(r"^FOUND (\{.*\})\s*$", out, re.M)
    if m:
        try:
            c = json.loads(m.group(1))
        except Exception:
            c = {"raw": m.group(1)}
        c.update({"reproduced": True, "kind": "search", "search_s": round(dt, 1)})
        return c
    m = re.search(r"NONE evaluations=(\d+) distinct=(\d+)", out)
    return {"reproduced": False, "kind": "search", "evaluations": int(m.group(1)) if m else 0, "search_s": round(dt, 1),
            "note": "no failing input found by the native search within its budget; the failed obligations and the verifier's output are in `violations`"}


def crosscheck(pid, seed, tier):
    """the proof passed: run the differential search anyway (contract-gap detector); returns (summary, cex or None)"""
    binp, err = vlib.build_replay()
    if binp is None:
        return {"error": "replay crate does not build"}, None
    rc, out, se, dt = vlib.run([binp, "search", pid, str(seed), str(CROSS_ITERS.get(tier, 30000))], timeout=900)
    m = re.search(r"^FOUND (\{.*\})\s*$", out, re.M)
    if m:
        try:
            c = json.loads(m.group(1))
        except Exception:
            c = {"raw": m.group(1)}
        c.update({"reproduced": True, "kind": "search", "search_s": round(dt, 1)})
        return {"found": True, "seconds": round(dt, 1)}, c
    m = re.search(r"NONE evaluations=(\d+) distinct=(\d+)", out)
    return {"found": False, "evaluations": int(m.group(1)) if m else 0, "distinct": int(m.group(2)) if m else 0, "seconds": round(dt, 1)}, None


def replay_file(path):
    rec = json.load(open(path))
    binp, err = vlib.build_replay()
    if binp is None:
        print("replay crate does not build against the current tree:", err)
        return 2
    cex = rec.get("counterexample") or {}
    print("property:", rec.get("property"))
    for v in rec.get("violations", []):
        print("  failed obligation:", v.get("obligation") or v.get("harness") or v.get("witness"), "|", (v.get("message") or v.get("detail") or "")[:200])
    if cex.get("kind") == "search" and cex.get("tape"):
        rc, out, se, dt = vlib.run([binp, "case", cex["check"], cex["tape"]], timeout=120)
        print(out.strip())
        return 1 if rc == 1 else 0
    if cex.get("kind") == "witness":
        res = vlib.run_witnesses(binp, [cex["witness"]])
        v, d = res.get(cex["witness"], ("missing", ""))
        print("WITNESS", cex["witness"], v, d)
        return 1 if v in ("reproduces", "other") else 0
    print("no failing input was recorded (no-failing-input-found): the file names the failed obligations and carries the verifier's output")
    return 0
