"""counterexample search + replay (native, against the real crate)"""
import os, json
def find_counterexample(pid, violations, seed):
    return None
def replay_file(path):
    print("not implemented yet")
    return 2
