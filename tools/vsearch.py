"""Counterexample search + replay, natively against the real crate (replay/src/search.rs: one randomized differential
check per property against the oracle written from the property statements).  Verus gives no model, so a failed
obligation is paired with this search; a found input is recorded as a tape and replays deterministically."""
import os, json, re
import vlib

ITERS = {"quick": 200000, "thorough": 2000000}          # after a failed obligation / undecided proof
CROSS_ITERS = {"quick": 30000, "thorough": 400000}      # independent cross-check when the proof passed


def find_counterexample(pid, violations, seed, tier="quick"):
    # a recorded/fixed finding's witness that misbehaves is itself a failing input replayed on the real code
    for v in violations:
        if v.get("kind") == "search" and v.get("cex"):
            return v["cex"]
        if v.get("kind") == "witness" and v.get("verdict") in ("reproduces", "other"):
            return {"reproduced": True, "kind": "witness", "witness": v["witness"], "detail": v.get("detail")}
    binp, err = vlib.build_replay()
    if binp is None:
        return {"reproduced": False, "error": "replay crate does not build: " + (err or "")[-300:]}
    rc, out, se, dt = vlib.run([binp, "search", pid, str(seed), str(ITERS.get(tier, 6000))], timeout=600)
    m = re.search(r"^FOUND (\{.*\})\s*$", out, re.M)
    if m:
        try:
            c = json.loads(m.group(1))
        except Exception:
            c = {"raw": m.group(1)}
        c.update({"reproduced": True, "kind": "search", "search_s": round(dt, 1)})
        return c
    m = re.search(r"NONE evaluations=(\d+) distinct=(\d+)", out)
    evals = int(m.group(1)) if m else 0
    fz = None
    if not os.environ.get("VERIF_NO_FUZZ"):
        try:
            fz = fuzz_search(pid, tier, binp)
        except Exception as e:
            fz = {"reproduced": False, "kind": "fuzz", "error": str(e)[:200]}
        if fz and fz.get("reproduced"):
            fz["random_evaluations_before"] = evals
            return fz
    return {"reproduced": False, "kind": "search", "evaluations": evals, "search_s": round(dt, 1), "fuzz": fz,
            "note": "no failing input found by the native random search nor by the coverage-guided stage within their budgets; the failed obligations and the verifier's output are in `violations`"}


FUZZ_SECONDS = {"quick": 45, "thorough": 300}


def fuzz_search(pid, tier, binp, seconds=None):
    """coverage-guided stage (libFuzzer with value profile, replay/fuzz): finds inputs that need specific constants.
    Only used after a failed/undecided proof when the random search found nothing.  Every artifact is re-checked
    natively with `replay case` before it is reported."""
    import shutil, glob, hashlib
    from concurrent.futures import ThreadPoolExecutor
    rc, out, se, dt = vlib.run([binp, "checks", pid], timeout=60)
    names = out.split()
    if not names:
        return None
    fdir = os.path.join(vlib.VERIF, "replay", "fuzz")
    tgt = os.path.join(vlib.VERIF, ".work", "fuzz-target")
    os.makedirs(tgt, exist_ok=True)
    rc, out, se, dt = vlib.run(["cargo", "+nightly", "fuzz", "build", "--fuzz-dir", fdir, "props"], cwd=fdir, env={"CARGO_TARGET_DIR": tgt}, timeout=900)
    exe = os.path.join(tgt, "x86_64-unknown-linux-gnu", "release", "props")
    if rc != 0 or not os.path.isfile(exe):
        return {"reproduced": False, "kind": "fuzz", "error": "fuzz target does not build: " + se[-300:]}
    work = vlib.workdir()
    secs = seconds or FUZZ_SECONDS.get(tier, 45)

    def one(name):
        d = os.path.join(work, "fuzz-" + name)
        shutil.rmtree(d, ignore_errors=True)
        os.makedirs(os.path.join(d, "corpus"))
        vlib.run([exe, os.path.join(d, "corpus"), "-max_total_time=%d" % secs, "-max_len=400", "-use_value_profile=1", "-artifact_prefix=" + d + "/", "-print_final_stats=0"],
                 env={"VERIF_FUZZ_CHECK": name}, timeout=secs + 120)
        for a in sorted(glob.glob(os.path.join(d, "crash-*"))):
            tape = open(a, "rb").read()[1:].hex()
            rc2, o2, e2, _ = vlib.run([binp, "case", name, tape], timeout=120)
            if rc2 == 1 and "REPRODUCED" in o2:
                return {"reproduced": True, "kind": "search", "check": name, "tape": tape, "detail": o2.strip()[11:600], "found_by": "libFuzzer (coverage-guided, value profile) %ds" % secs}
        return None
    with ThreadPoolExecutor(max_workers=len(names)) as ex:
        for r in ex.map(one, names):
            if r:
                return r
    return {"reproduced": False, "kind": "fuzz", "seconds": secs, "checks": names}


def crosscheck(pid, seed, tier):
    """the proof passed: run the differential search anyway (contract-gap detector); returns (summary, cex or None)"""
    binp, err = vlib.build_replay()
    if binp is None:
        return {"error": "replay crate does not build"}, None
    rc, out, se, dt = vlib.run([binp, "search", pid, str(seed), str(CROSS_ITERS.get(tier, 30000))], timeout=900)
    m = re.search(r"^FOUND (\{.*\})\s*$", out, re.M)
    if m:
        try:
            c = json.loads(m.group(1))
        except Exception:
            c = {"raw": m.group(1)}
        c.update({"reproduced": True, "kind": "search", "search_s": round(dt, 1)})
        return {"found": True, "seconds": round(dt, 1)}, c
    m = re.search(r"NONE evaluations=(\d+) distinct=(\d+)", out)
    summ = {"found": False, "evaluations": int(m.group(1)) if m else 0, "distinct": int(m.group(2)) if m else 0, "seconds": round(dt, 1)}
    if tier == "thorough" and not os.environ.get("VERIF_NO_FUZZ"):
        # thorough tier: the coverage-guided stage also runs as a cross-check (120 s per check function, in parallel)
        try:
            fz = fuzz_search(pid, tier, binp, seconds=120)
        except Exception as e:
            fz = {"reproduced": False, "error": str(e)[:200]}
        summ["coverage_guided"] = {k: v for k, v in (fz or {}).items() if k in ("reproduced", "seconds", "checks", "error")}
        if fz and fz.get("reproduced"):
            summ["found"] = True
            return summ, fz
    return summ, None


def replay_file(path):
    rec = json.load(open(path))
    binp, err = vlib.build_replay()
    if binp is None:
        print("replay crate does not build against the current tree:", err)
        return 2
    cex = rec.get("counterexample") or {}
    print("property:", rec.get("property"))
    for v in rec.get("violations", []):
        print("  failed obligation:", v.get("obligation") or v.get("harness") or v.get("witness"), "|", (v.get("message") or v.get("detail") or "")[:200])
    if cex.get("kind") == "search" and cex.get("tape"):
        rc, out, se, dt = vlib.run([binp, "case", cex["check"], cex["tape"]], timeout=120)
        print(out.strip())
        return 1 if rc == 1 else 0
    if cex.get("kind") == "witness":
        res = vlib.run_witnesses(binp, [cex["witness"]])
        v, d = res.get(cex["witness"], ("missing", ""))
        print("WITNESS", cex["witness"], v, d)
        return 1 if v in ("reproduces", "other") else 0
    print("no failing input was recorded (no-failing-input-found): the file names the failed obligations and carries the verifier's output")
    return 0
