#!/bin/bash
# false-alarm test through the real checks: apply each behaviour-preserving patch to /repo, run `./check all`, revert.
# prints per patch the number of OK / UNDECIDED / VIOLATION answers; evidence of the unchanged tree is preserved.
cd /verif
for patch in "$@"; do
  patch=$(readlink -f "$patch")
  if [ -n "$(git -C /repo status --porcelain)" ]; then echo "repo not clean"; exit 2; fi
  bak=$(mktemp -d); cp -a evidence/. $bak/
  if ! git -C /repo apply "$patch"; then echo "$patch DOES-NOT-APPLY"; rm -rf $bak; continue; fi
  t=$(cd /repo && cargo test --offline 2>&1 | grep -c "59 passed")
  out=$(./check all 2>&1 | grep -v KNOWN-FINDING)
  git -C /repo checkout -- .
  find evidence -maxdepth 1 -name 'C*.json' -delete; cp -a $bak/. evidence/; rm -rf $bak
  ok=$(echo "$out" | grep -c "^OK "); und=$(echo "$out" | grep -c "^UNDECIDED"); vio=$(echo "$out" | grep -c "^VIOLATION")
  echo "$(basename $patch) tests59=$t OK=$ok UNDECIDED=$und VIOLATION=$vio"
  echo "$out" | grep -E "^VIOLATION|^  failed" | head -5
done
