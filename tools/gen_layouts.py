#!/usr/bin/env python3
"""Generate, from contracts/layouts.toml, (a) per-module .vc files with the Verus assume_specification of
every bit-field accessor and (b) the Kani harness module proving exactly those statements on the real
macro-generated accessors.   usage: gen_layouts.py <layouts.toml> <out-vc-dir> <out-kani-file>"""
import sys, tomllib, os, json

def mask(w): return (1 << w) - 1

def main():
    lay = tomllib.load(open(sys.argv[1], 'rb'))
    outvc, outkani = sys.argv[2], sys.argv[3]
    os.makedirs(outvc, exist_ok=True)
    per_mod = {}
    kani_mod = {}
    index = []
    for st in lay['struct']:
        name, mod, size = st['name'], st['module'], st['size']
        kani = kani_mod.setdefault(mod, [])
        out = per_mod.setdefault(mod, [])
        out.append(f"#[verifier::reject_recursive_types(T)]\n#[verifier::external_type_specification]\npub struct Ex{name}<T>(crate::{mod}::{name}<T>);\n")
        for f in st['field']:
            ty = f.get('ty', 'u8')
            if 'be_bytes' in f:
                bs = f['be_bytes']
                n = len(bs)
                getx = " | ".join(f"((as_bytes(s.0)[{b}] as {ty}) << {8*(n-1-i)})" for i, b in enumerate(bs))
                kgetx = " | ".join(f"((raw[{b}] as {ty}) << {8*(n-1-i)})" for i, b in enumerate(bs))
                if 'get' in f:
                    out.append(f"#[verifier::allow(undeclared_external_trait)]\npub assume_specification<T: AsRef<[u8]>> [ {name}::<T>::{f['get']} ] (s: &{name}<T>) -> (r: {ty})\n    ensures r == ({getx});\n")
                    h = f"acc_{name}_{f['get']}"
                    kani.append(f"    #[kani::proof]\n    #[kani::unwind({8*n+2})]\n    fn {h}() {{\n        let raw: [u8; {size}] = kani::any();\n        let h = {name}(raw);\n        assert!(h.{f['get']}() == ({kgetx}));\n        kani::cover!(true);\n    }}\n")
                    index.append({"harness": h, "struct": name, "accessor": f['get'], "kind": "get", "qualified": f"{mod}::verif_kani_acc::{h}"})
                if 'set' in f:
                    upd = "as_bytes(old(s).0)"
                    for i, b in enumerate(bs):
                        upd += f".update({b}, (v >> {8*(n-1-i)}) as u8)"
                    out.append(f"#[verifier::allow(undeclared_external_trait)]\npub assume_specification<T: AsMut<[u8]>> [ {name}::<T>::{f['set']} ] (s: &mut {name}<T>, v: {ty})\n    ensures as_bytes(final(s).0) == {upd};\n")
                    h = f"acc_{name}_{f['set']}"
                    exp = "".join(f"        exp[{b}] = (v >> {8*(n-1-i)}) as u8;\n" for i, b in enumerate(bs))
                    kani.append(f"    #[kani::proof]\n    #[kani::unwind({8*n+2})]\n    fn {h}() {{\n        let raw: [u8; {size}] = kani::any();\n        let v: {ty} = kani::any();\n        let mut h = {name}(raw);\n        h.{f['set']}(v);\n        let mut exp = raw;\n{exp}        assert!(h.0 == exp);\n        kani::cover!(true);\n    }}\n")
                    index.append({"harness": h, "struct": name, "accessor": f['set'], "kind": "set", "qualified": f"{mod}::verif_kani_acc::{h}"})
                continue
            b, sh, w = f['byte'], f['shift'], f['width']
            m = mask(w)
            if w == 8:
                getx = f"as_bytes(s.0)[{b}]"
                kgetx = f"raw[{b}]"
                setx = "v"
                ksetx = "v"
            else:
                getx = f"((as_bytes(s.0)[{b}] >> {sh}) & {hex(m)})"
                kgetx = f"((raw[{b}] >> {sh}) & {hex(m)})"
                setx = f"(as_bytes(old(s).0)[{b}] & !(({hex(m)}u8) << {sh})) | ((v & {hex(m)}) << {sh})"
                ksetx = f"(raw[{b}] & !(({hex(m)}u8) << {sh})) | ((v & {hex(m)}) << {sh})"
            if 'get' in f:
                out.append(f"#[verifier::allow(undeclared_external_trait)]\npub assume_specification<T: AsRef<[u8]>> [ {name}::<T>::{f['get']} ] (s: &{name}<T>) -> (r: u8)\n    ensures r == {getx};\n")
                h = f"acc_{name}_{f['get']}"
                kani.append(f"    #[kani::proof]\n    #[kani::unwind(10)]\n    fn {h}() {{\n        let raw: [u8; {size}] = kani::any();\n        let h = {name}(raw);\n        assert!(h.{f['get']}() == {kgetx});\n        kani::cover!(true);\n    }}\n")
                index.append({"harness": h, "struct": name, "accessor": f['get'], "kind": "get", "qualified": f"{mod}::verif_kani_acc::{h}"})
            if 'set' in f:
                out.append(f"#[verifier::allow(undeclared_external_trait)]\npub assume_specification<T: AsMut<[u8]>> [ {name}::<T>::{f['set']} ] (s: &mut {name}<T>, v: u8)\n    ensures as_bytes(final(s).0) == as_bytes(old(s).0).update({b}, {setx});\n")
                h = f"acc_{name}_{f['set']}"
                kani.append(f"    #[kani::proof]\n    #[kani::unwind(10)]\n    fn {h}() {{\n        let raw: [u8; {size}] = kani::any();\n        let v: u8 = kani::any();\n        let mut h = {name}(raw);\n        h.{f['set']}(v);\n        let mut exp = raw;\n        exp[{b}] = {ksetx};\n        assert!(h.0 == exp);\n        kani::cover!(true);\n    }}\n")
                index.append({"harness": h, "struct": name, "accessor": f['set'], "kind": "set", "qualified": f"{mod}::verif_kani_acc::{h}"})
    # C18 consistency of the table itself: for every setter, read-after-write returns the value truncated to the field
    # width and every other field sharing the byte is preserved (fields in other bytes: the update touches one index)
    for st in lay['struct']:
        name, mod = st['name'], st['module']
        out = per_mod.setdefault(mod, [])
        fields = [f for f in st['field'] if 'be_bytes' not in f]
        for f in fields:
            if 'set' not in f or f['width'] == 8:
                continue
            b, sh, w = f['byte'], f['shift'], f['width']
            m = mask(w)
            ens = [f"(((b & !(({hex(m)}u8) << {sh})) | ((v & {hex(m)}) << {sh})) >> {sh}) & {hex(m)} == v & {hex(m)}"]
            for g in fields:
                if g is f or g['byte'] != b or g['width'] == 8:
                    continue
                gs, gm = g['shift'], mask(g['width'])
                ens.append(f"(((b & !(({hex(m)}u8) << {sh})) | ((v & {hex(m)}) << {sh})) >> {gs}) & {hex(gm)} == (b >> {gs}) & {hex(gm)}")
            body = "\n".join(f"    assert({e}) by(bit_vector);" for e in ens)
            out.append(f"/// C18: {name}::{f['set']} stores v truncated to {w} bit(s) and preserves every other field of byte {b}\n"
                       f"pub proof fn lemma_layout_{name}_{f['name']}(b: u8, v: u8)\n    ensures\n" + "".join(f"        {e},\n" for e in ens) + "{\n" + body + "\n}\n")
    for mod, parts in per_mod.items():
        with open(os.path.join(outvc, f"{mod}.acc.vc"), 'w') as fh:
            fh.write("//# GENERATED by tools/gen_layouts.py from contracts/layouts.toml -- do not edit\n@top\n")
            fh.write("\n".join(parts))
    for mod, parts in kani_mod.items():
        with open(outkani + "." + mod + ".rs", 'w') as fh:
            fh.write("// GENERATED by tools/gen_layouts.py from contracts/layouts.toml -- do not edit\n")
            fh.write("#[cfg(kani)]\nmod verif_kani_acc {\n    #![allow(unused_imports, unused_mut)]\n    use super::*;\n")
            fh.write("".join(parts))
            fh.write("}\n")
    json.dump(index, open(outkani + ".index.json", 'w'), indent=1)

main()
