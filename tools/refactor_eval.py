#!/usr/bin/env python3
"""False-alarm test: apply a behaviour-preserving refactoring to /repo, run the Verus unit + differential search, revert.
usage: refactor_eval.py <patch.diff> [...]   prints per patch: OK | UNDECIDED (exit 2, no alarm) | ALARM (would print VIOLATION)"""
import sys, os, subprocess, json
sys.path.insert(0, os.path.dirname(os.path.abspath(__file__)))
import vlib

def sh(c, cwd=None):
    p = subprocess.run(c, shell=True, cwd=cwd, stdout=subprocess.PIPE, stderr=subprocess.STDOUT, text=True)
    return p.returncode, p.stdout

for patch in sys.argv[1:]:
    rc, out = sh("git -C /repo status --porcelain")
    if out.strip():
        print("repo not clean"); sys.exit(2)
    rc, out = sh("git -C /repo apply %s" % patch)
    if rc != 0:
        print(patch, "DOES-NOT-APPLY", out[:200]); continue
    try:
        rc, out = sh("cargo test --offline 2>&1 | grep -E '^test result|^error'", cwd="/repo")
        tests_ok = "59 passed" in out and "error" not in out
        verdict, detail = "OK", ""
        try:
            res = vlib.splice_and_verify()
            if res.get("tool_error") or res["compile_errors"] or res["rlimit"]:
                verdict = "UNDECIDED"
                detail = (res.get("tool_error") or (res["compile_errors"][0]["message"] if res["compile_errors"] else "rlimit " + str([r["fn"] for r in res["rlimit"]])))[:200]
            fails = [vlib.ob_name(o) for o in res["failed"] if not (o["kind"] == "panic" and "CompletionCode" in (o["fn"] or ""))]
            if fails:
                verdict = "ALARM"
                detail = "; ".join(fails[:4])
        except vlib.ToolProblem as e:
            verdict, detail = "UNDECIDED", str(e)[:200]
        binp, _ = vlib.build_replay()
        srch = ""
        if binp:
            rc2, o2, e2, dt = vlib.run([binp, "search", "ALL", "3", "20000"], timeout=600)
            srch = "search:" + ("FOUND " + o2[:200] if "FOUND" in o2 else "none")
        print("%s tests_ok=%s %s %s %s" % (os.path.basename(os.path.dirname(os.path.dirname(patch))) + "/" + os.path.basename(patch), tests_ok, verdict, detail, srch), flush=True)
    finally:
        sh("git -C /repo checkout -- .")
