#!/usr/bin/env python3
"""dev helper: run only the Verus unit on $VERIF_REPO (default /repo) and print failed obligations + the soft/hard
classification of the structural-drift rule (no Kani, no search, no second back end). usage: VERIF_REPO=<worktree> python3 tools/dev_vrun.py"""
import sys, os, json
sys.path.insert(0, os.path.dirname(os.path.abspath(__file__)))
import vlib
try:
    res = vlib.splice_and_verify()
except vlib.ToolProblem as e:
    print("TOOLPROBLEM", str(e)[:1500]); sys.exit(2)
if res.get("tool_error"): print("tool_error", res["tool_error"][:1500])
for c in res["compile_errors"][:5]: print("COMPILE", c["message"][:300], c.get("origin"))
for r in res["rlimit"]: print("RLIMIT", r)
for o in res["failed"]:
    print("FAILED", vlib.ob_name(o), "-", (o.get("message") or "")[:100])
print("n_failed", len(res["failed"]))
un = res.get("unapplied") or []
for u in un: print("UNAPPLIED", u.get("fn"), u.get("kind"), (u.get("why") or "")[:160])
drift = vlib.drifted_modules(res["fnindex"]) | set(u["fn"].split("::")[0] for u in un if u["kind"] != "contract")
print("drift", sorted(drift))
lost = [u for u in un if u["kind"] == "contract"]
hard = [vlib.ob_name(o) for o in res["failed"] if not lost and (o.get("fn") or "").split("::")[0] not in drift and (o.get("body_fn") or "?").split("::")[0] not in drift and not (o["kind"] == "panic" and "CompletionCode" in (o.get("fn") or ""))]
print("VERDICT", "HARD-ALARM" if hard else ("SOFT(undecided unless cex)" if len(res["failed"]) > 1 or un else "OK"), hard[:6])
