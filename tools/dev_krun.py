"""dev helper: run Kani harnesses by name/glob on $VERIF_REPO. usage: VERIF_REPO=<worktree> python3 tools/dev_krun.py k_hdr_*"""
import sys, os, json
sys.path.insert(0, os.path.dirname(os.path.abspath(__file__)))
import vlib, vkani
k = vkani.run_harnesses(sys.argv[1:], "quick")
if k.get("tool_error"): print("TOOL", k["tool_error"][:2000])
for h, r in k["harnesses"].items(): print(h, r["status"], r.get("time_s"), r.get("covers"), (r.get("detail") or "")[:200])
