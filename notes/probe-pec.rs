use vstd::prelude::*;
verus! {

pub open spec fn crc8_bit(c: u8) -> u8 {
    if c & 0x80 != 0 { (c << 1) ^ 7 } else { c << 1 }
}
pub open spec fn crc8_bits(c: u8, n: nat) -> u8 decreases n {
    if n == 0 { c } else { crc8_bit(crc8_bits(c, (n - 1) as nat)) }
}
pub open spec fn crc8_step(c: u8, b: u8) -> u8 { crc8_bits(c ^ b, 8) }
pub open spec fn crc8(s: Seq<u8>) -> u8 decreases s.len() {
    if s.len() == 0 { 0 } else { crc8_step(crc8(s.drop_last()), s.last()) }
}

    pub fn pec(data: &[u8]) -> (r: u8)
        ensures r == crc8(data@)
    {
        let mut crc = 0;
        for byte in it: data
            invariant crc == crc8(data@.take(it.index@ as int)), it.index@ <= data@.len(),
        {
            let ghost c0 = crc;
            let ghost i = it.index@ as int;
            crc ^= *byte;
            for k in 0..8
                invariant crc == crc8_bits(c0 ^ *byte, k as nat),
            {
                assert(((crc & (1u8 << 7)) != 0) == (crc & 0x80 != 0)) by(bit_vector);
                crc =
                    if (crc & (1 << 7)) != 0 {
                        (crc << 1) ^ 7
                    } else { crc << 1 };
            }
            proof {
                assert(data@.take(i + 1).drop_last() == data@.take(i));
                assert(data@.take(i + 1).last() == data@[i]);
            }
        }
        proof { assert(data@.take(data@.len() as int) == data@); }
        crc
    }
}
fn main(){}
