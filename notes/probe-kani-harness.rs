
#[cfg(kani)]
mod verif_kani {
    use crate::smbus::*;
    use crate::vendor_packets::*;
    use crate::mctp_traits::SMBusMCTPRequestResponse;

    fn havoc_pec(_d: &[u8]) -> u8 { kani::any() }

    fn no_known_panic(p: &[u8], nvendors: usize) -> bool {
        let n = p.len();
        if n < 10 { return false; }
        if p[4] != 1 { return true; }
        if p[8] & 0x80 != 0 { return true; }
        let mt = p[8] & 0x7f;
        if mt == 0 {
            if n < 12 { return false; }
            let rq = p[9] & 0x80 != 0;
            let cmd = p[10];
            if rq {
                if cmd == 0 || cmd > 6 { return false; }
                if cmd == 1 && n == 14 && (p[11] == 2 || p[11] > 3) { return false; }
                if cmd == 6 && n == 13 && (p[11] as usize >= nvendors) { return false; }
            } else {
                if n < 13 { return false; }
                if p[11] > 5 { return false; }
                if p[11] == 0 && !(cmd <= 6 || cmd == 8 || cmd == 9) { return false; }
            }
        }
        true
    }

    const L: usize = LMAX;
    #[kani::proof]
    #[kani::stub(smbus_pec::pec, havoc_pec)]
    #[kani::unwind(UNW)]
    fn k_step() {
        let addr: u8 = kani::any();
        let msg_types: [u8; 2] = kani::any();
        let vendor_ids = [VendorIDFormat { format: 0, data: kani::any(), numeric_value: kani::any() },
                          VendorIDFormat { format: 1, data: kani::any(), numeric_value: kani::any() }];
        let ctx = MCTPSMBusContext::new(addr, &msg_types, &vendor_ids);
        let e_req: u8 = kani::any();
        let e_resp: u8 = kani::any();
        ctx.get_request().set_eid(e_req);
        ctx.get_response().set_eid(e_resp);
        let arr: [u8; L] = kani::any();
        let len: usize = kani::any();
        kani::assume(len >= 10 && len <= L);
        let packet = &arr[..len];
        kani::assume(no_known_panic(packet, 2));
        let mut resp: [u8; 64] = kani::any();
        let resp0 = resp;
        let r = ctx.process_packet(packet, &mut resp);
        let a_req = ctx.get_request().get_eid();
        let a_resp = ctx.get_response().get_eid();
        match r {
            Ok((_, Some(rl))) => {
                assert!(packet[8] == 0 && packet[9] & 0x80 != 0);
                if packet[10] == 1 && (packet[11] == 0 || packet[11] == 1) {
                    assert!(len == 14);
                    assert!(a_req == packet[12] && a_resp == packet[12]);
                    assert!(resp[11] == 0 && resp[12] == 0 && resp[13] == packet[12]);
                } else {
                    assert!(a_req == e_req && a_resp == e_resp);
                    if packet[10] == 1 { assert!(resp[11] == 2); }
                }
                let mut i = rl; while i < 64 { assert!(resp[i] == resp0[i]); i += 1; }
            }
            _ => {
                assert!(a_req == e_req && a_resp == e_resp);
                assert!(resp == resp0);
            }
        }
        kani::cover!(true);
    }

    #[kani::proof]
    #[kani::stub(smbus_pec::pec, havoc_pec)]
    #[kani::unwind(70)]
    fn k_sel() {
        let addr: u8 = kani::any();
        let msg_types: [u8; 0] = [];
        let mut v: [VendorIDFormat; 16] = core::array::from_fn(|_| VendorIDFormat { format: 0, data: 0, numeric_value: 0 });
        let mut i = 0; while i < 16 { let f: u8 = kani::any(); kani::assume(f <= 1); v[i] = VendorIDFormat { format: f, data: kani::any(), numeric_value: kani::any() }; i += 1; }
        let n: usize = kani::any(); kani::assume(n >= 1 && n <= 16);
        let ctx = MCTPSMBusContext::new(addr, &msg_types, &v[..n]);
        let packet: [u8; 13] = kani::any();
        kani::assume(packet[4] == 1 && packet[8] == 0 && packet[9] & 0x80 != 0 && packet[10] == 6);
        let sel = packet[11] as usize;
        kani::assume(sel < n);
        let mut resp: [u8; 64] = kani::any();
        let r = ctx.process_packet(&packet, &mut resp);
        if let Ok((_, Some(rl))) = r {
            assert!(resp[11] == 0);
            assert!(resp[12] == if sel + 1 == n { 0xFF } else { (sel + 1) as u8 });
            assert!(resp[13] == v[sel].format);
            if v[sel].format == 0 {
                assert!(rl == 19);
                assert!(resp[14] == (v[sel].data >> 8) as u8 && resp[15] == v[sel].data as u8);
                assert!(resp[16] == (v[sel].numeric_value >> 8) as u8 && resp[17] == v[sel].numeric_value as u8);
            } else {
                assert!(rl == 21);
                assert!(resp[14] == (v[sel].data >> 24) as u8 && resp[17] == v[sel].data as u8);
            }
        }
        kani::cover!(true);
    }

    #[kani::proof]
    fn k_fail_demo() {
        let addr: u8 = kani::any();
        let msg_types: [u8; 0] = [];
        let vendor_ids: [VendorIDFormat; 0] = [];
        let ctx = MCTPSMBusContext::new(addr, &msg_types, &vendor_ids);
        let p: [u8; 3] = kani::any();
        let r = ctx.get_length(&p);
        if p[1] == 0x0F { assert!(r == Ok(p[2] as usize + 3)); }
    }
}
