use vstd::prelude::*;
verus! {
pub open spec fn crc8_bit(c: u8) -> u8 {
    if c & 0x80 != 0 { (c << 1) ^ 7 } else { c << 1 }
}
pub open spec fn crc8_bits(c: u8, n: nat) -> u8 decreases n {
    if n == 0 { c } else { crc8_bit(crc8_bits(c, (n - 1) as nat)) }
}
proof fn lemma_bit_facts(a: u8, b: u8)
    ensures crc8_bit(a ^ b) == crc8_bit(a) ^ crc8_bit(b),
            crc8_bit(a) == crc8_bit(b) ==> a == b,
            crc8_bit(0) == 0,
{
    assert((if (a^b) & 0x80 != 0 { ((a^b) << 1) ^ 7 } else { (a^b) << 1 })
        == (if a & 0x80 != 0 { (a << 1) ^ 7 } else { a << 1 }) ^ (if b & 0x80 != 0 { (b << 1) ^ 7 } else { b << 1 })) by(bit_vector);
    assert(((if a & 0x80 != 0 { (a << 1) ^ 7 } else { a << 1 }) == (if b & 0x80 != 0 { (b << 1) ^ 7 } else { b << 1 })) ==> a == b) by(bit_vector);
    assert(((0u8) << 1) == 0u8) by(bit_vector);
    assert(0u8 & 0x80 == 0) by(bit_vector);
}
proof fn lemma_bits_linear_inj(a: u8, b: u8, n: nat)
    ensures crc8_bits(a ^ b, n) == crc8_bits(a, n) ^ crc8_bits(b, n),
            crc8_bits(a, n) == crc8_bits(b, n) ==> a == b,
            crc8_bits(0, n) == 0,
    decreases n
{
    if n > 0 {
        lemma_bits_linear_inj(a, b, (n-1) as nat);
        lemma_bit_facts(crc8_bits(a, (n-1) as nat), crc8_bits(b, (n-1) as nat));
    }
}
proof fn bv_burst_s3(c0:u8,c1:u8,c2:u8,c3:u8,c4:u8,c5:u8,c6:u8,c7:u8,c8:u8,p:u8)
    by(bit_vector)
    requires
        p != 0 && c0 == p >> 3
        && c1 == (if c0 & 0x80 != 0 { (c0 << 1) ^ 7 } else { c0 << 1 })
        && c2 == (if c1 & 0x80 != 0 { (c1 << 1) ^ 7 } else { c1 << 1 })
        && c3 == (if c2 & 0x80 != 0 { (c2 << 1) ^ 7 } else { c2 << 1 })
        && c4 == (if c3 & 0x80 != 0 { (c3 << 1) ^ 7 } else { c3 << 1 })
        && c5 == (if c4 & 0x80 != 0 { (c4 << 1) ^ 7 } else { c4 << 1 })
        && c6 == (if c5 & 0x80 != 0 { (c5 << 1) ^ 7 } else { c5 << 1 })
        && c7 == (if c6 & 0x80 != 0 { (c6 << 1) ^ 7 } else { c6 << 1 })
        && c8 == (if c7 & 0x80 != 0 { (c7 << 1) ^ 7 } else { c7 << 1 })
    ensures c8 != (p << 5)
{}
proof fn lemma_burst_s3(p: u8)
    requires p != 0
    ensures crc8_bits(p >> 3, 8) != (p << 5)
{
    reveal_with_fuel(crc8_bits, 9);
    let c0 = p >> 3;
    let c1 = crc8_bit(c0); let c2 = crc8_bit(c1); let c3 = crc8_bit(c2); let c4 = crc8_bit(c3);
    let c5 = crc8_bit(c4); let c6 = crc8_bit(c5); let c7 = crc8_bit(c6); let c8 = crc8_bit(c7);
    bv_burst_s3(c0,c1,c2,c3,c4,c5,c6,c7,c8,p);
    assert(crc8_bits(c0, 8) == c8);
}
}
fn main(){}
